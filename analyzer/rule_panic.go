package main

// R-EXH (consumers handle every dynamic type the decoder can produce) and
// R-PANIC (census of the remaining panic sources of the library bodies:
// explicit panics, single-value type assertions, writes to possibly-nil maps).

import (
	"fmt"
	"go/token"
	"go/types"
	"sort"
	"strings"

	"golang.org/x/tools/go/ssa"
)

func init() {
	register(&Rule{ID: "R-EXH", Doc: "the dynamic types the decoder can put into an interface{} (extracted from the MakeInterface sites of the codec's *Interface functions and convertNumber, with float64 excluded because useNumber is forced — R-POOLINIT; for the legacy body the documented set of encoding/json) are all handled by the type switches of getDiff and matchesValue",
		Run: ruleExh, Min: map[string]int{"v5": 2, "legacy": 2}})
	register(&Rule{ID: "R-PANIC", Doc: "census of the other panic sources in library code: every explicit panic is the default arm of a type switch that R-EXH shows exhaustive; every single-value type assertion x.(T) is dominated by reflect.TypeOf(a) == reflect.TypeOf(x) together with a successful a.(T); every map update is on a freshly made map or under a non-nil fact for that map",
		Run: rulePanic, Min: map[string]int{"v5": 8, "legacy": 8}})
}

func typeSetString(m map[string]bool) string {
	var ks []string
	for k := range m {
		ks = append(ks, k)
	}
	sort.Strings(ks)
	return "{" + strings.Join(ks, ", ") + "}"
}

func normType(t types.Type) string {
	s := types.TypeString(t, func(p *types.Package) string { return "" })
	s = strings.ReplaceAll(s, "interface{}", "any")
	return s
}

// producerTypes: what the decoder stores into interface{} targets.
func (b *Body) producerTypes() (map[string]bool, string) {
	out := map[string]bool{"nil": true}
	if b.Codec == nil {
		for _, t := range []string{"string", "float64", "bool", "map[string]any", "[]any"} {
			out[t] = true
		}
		return out, "documented result types of encoding/json.Unmarshal into interface{} (legacy body uses the standard library)"
	}
	var fns []string
	for _, fn := range b.srcFuncs(b.Codec) {
		if recvTypeName(fn) != "decodeState" {
			continue
		}
		if !(strings.HasSuffix(fn.Name(), "Interface") || fn.Name() == "convertNumber") {
			continue
		}
		fns = append(fns, fn.Name())
		allInstrs(fn, func(i ssa.Instruction) {
			mi, ok := i.(*ssa.MakeInterface)
			if !ok {
				return
			}
			if _, isIface := mi.Type().Underlying().(*types.Interface); !isIface || isErrorType(mi.Type()) {
				return
			}
			// error values built for returns are not decoded values
			if strings.Contains(normType(mi.X.Type()), "Error") {
				return
			}
			out[normType(mi.X.Type())] = true
		})
	}
	// useNumber is forced in every entry point (R-POOLINIT): convertNumber's float64 arm is dead
	delete(out, "float64")
	sort.Strings(fns)
	return out, "MakeInterface operand types in " + strings.Join(fns, ", ") + " (float64 excluded: useNumber is forced true in every decoder entry point, R-POOLINIT)"
}

// consumerTypes: types handled by the type switch on value v in fn (comma-ok
// type assertions on v, plus nil if v is compared with nil).
func consumerTypes(fn *ssa.Function, v ssa.Value) map[string]bool {
	out := map[string]bool{}
	allInstrs(fn, func(i ssa.Instruction) {
		switch x := i.(type) {
		case *ssa.TypeAssert:
			if x.X == v && x.CommaOk {
				out[normType(x.AssertedType)] = true
			}
		case *ssa.BinOp:
			if (x.Op == token.EQL || x.Op == token.NEQ) && ((x.X == v && isNilConst(x.Y)) || (x.Y == v && isNilConst(x.X))) {
				out["nil"] = true
			}
		}
	})
	return out
}

func ruleExh(c *Ctx) {
	for _, b := range c.bodies() {
		l := c.L
		prod, how := b.producerTypes()
		l.stat("R-EXH").Extra[b.Name+"_producer_types"] = typeSetString(prod)
		for _, name := range []string{"getDiff", "matchesValue"} {
			fn := b.roleFn(name)
			if fn == nil {
				l.add("R-EXH", b.Name, name+": anchor", "", Undecided, name+" not found", false)
				continue
			}
			// the switched value: the one with the most comma-ok assertions
			cnt := map[ssa.Value]int{}
			allInstrs(fn, func(i ssa.Instruction) {
				if ta, ok := i.(*ssa.TypeAssert); ok && ta.CommaOk {
					cnt[ta.X]++
				}
			})
			var sw ssa.Value
			for v, n := range cnt {
				if sw == nil || n > cnt[sw] {
					sw = v
				}
			}
			key := name + ": the type switch handles every type the decoder produces"
			if sw == nil {
				l.add("R-EXH", b.Name, key, b.rel(fn.Pos()), Violated, "no type switch found", true)
				continue
			}
			cons := consumerTypes(fn, sw)
			var missing []string
			for t := range prod {
				if !cons[t] {
					missing = append(missing, t)
				}
			}
			sort.Strings(missing)
			if len(missing) > 0 {
				eff := "values of that type are never considered equal, so unchanged members are reported as changes"
				if name == "getDiff" {
					eff = "values of that type fall into the default arm, which panics"
				}
				l.add("R-EXH", b.Name, key, b.rel(fn.Pos()), Violated, "not handled: "+strings.Join(missing, ", ")+" — "+eff+"; producer set "+typeSetString(prod)+" from "+how+"; handled "+typeSetString(cons), true)
			} else {
				l.add("R-EXH", b.Name, key, b.rel(fn.Pos()), Discharged, "producer "+typeSetString(prod)+" ⊆ handled "+typeSetString(cons)+"; "+how, true)
			}
		}
	}
}

func isTypeOfCall(v ssa.Value) (ssa.Value, bool) {
	call, ok := v.(*ssa.Call)
	if !ok {
		return nil, false
	}
	f := call.Call.StaticCallee()
	if f == nil || stdName(f) != "reflect.TypeOf" {
		return nil, false
	}
	return unwrapConv(call.Call.Args[0]), true
}

func rulePanic(c *Ctx) {
	for _, b := range c.bodies() {
		l := c.L
		b.extCallCensus(l, "github.com/evanphx/json-patch")
		for _, fn := range b.srcFuncs(b.Lib) {
			nP, nT, nM := 0, 0, 0
			allInstrs(fn, func(i ssa.Instruction) {
				switch x := i.(type) {
				case *ssa.Panic:
					nP++
					key := fmt.Sprintf("%s: explicit panic #%d is unreachable", fname(fn), nP)
					// default arm of an exhaustive type switch: the block is reached only through the failure edges of comma-ok assertions
					okc := false
					cnt := map[ssa.Value]int{}
					allInstrs(fn, func(j ssa.Instruction) {
						if ta, ok := j.(*ssa.TypeAssert); ok && ta.CommaOk {
							cnt[ta.X]++
						}
					})
					for v, n := range cnt {
						if n < 3 {
							continue
						}
						prod, _ := b.producerTypes()
						cons := consumerTypes(fn, v)
						all := true
						for t := range prod {
							if !cons[t] {
								all = false
							}
						}
						// the panic block must lie on the all-failed path of that switch
						if all {
							okc = true
							allInstrs(fn, func(j ssa.Instruction) {
								ta, ok := j.(*ssa.TypeAssert)
								if !ok || !ta.CommaOk || ta.X != v {
									return
								}
								for _, ex := range extractOf(ta, 1) {
									for _, r := range *ex.Referrers() {
										if iff, ok := r.(*ssa.If); ok {
											if edgeDominates(iff.Block(), 0, x.Block()) {
												okc = false // the panic is under a successful case
											}
										}
									}
								}
							})
						}
					}
					if okc {
						l.add("R-PANIC", b.Name, key, b.posOf(x), Discharged, "default arm of a type switch whose cases cover every type the decoder produces (R-EXH)", true)
					} else {
						l.add("R-PANIC", b.Name, key, b.posOf(x), Violated, "an explicit panic that is not the default arm of an exhaustive type switch", true)
					}
				case *ssa.TypeAssert:
					if x.CommaOk {
						return
					}
					if _, isIface := x.AssertedType.Underlying().(*types.Interface); isIface {
						return
					}
					nT++
					key := fmt.Sprintf("%s: single-value type assertion #%d to %s cannot fail", fname(fn), nT, normType(x.AssertedType))
					why := ""
					// (a) same dynamic type as a value that was successfully asserted to T
					for _, bb := range fn.Blocks {
						iff, ok := bb.Instrs[len(bb.Instrs)-1].(*ssa.If)
						if !ok {
							continue
						}
						bo, ok := iff.Cond.(*ssa.BinOp)
						if !ok || (bo.Op != token.NEQ && bo.Op != token.EQL) {
							continue
						}
						a1, ok1 := isTypeOfCall(bo.X)
						a2, ok2 := isTypeOfCall(bo.Y)
						if !ok1 || !ok2 {
							continue
						}
						eqSucc := 0
						if bo.Op == token.NEQ {
							eqSucc = 1
						}
						if !edgeDominates(bb, eqSucc, x.Block()) {
							continue
						}
						var other ssa.Value
						if unwrapConv(x.X) == a1 {
							other = a2
						} else if unwrapConv(x.X) == a2 {
							other = a1
						} else {
							continue
						}
						// other.(T) succeeded on a dominating edge
						allInstrs(fn, func(j ssa.Instruction) {
							ta, ok := j.(*ssa.TypeAssert)
							if !ok || !ta.CommaOk || unwrapConv(ta.X) != other || !types.Identical(ta.AssertedType, x.AssertedType) {
								return
							}
							for _, ex := range extractOf(ta, 1) {
								for _, r := range *ex.Referrers() {
									if i2, ok := r.(*ssa.If); ok && edgeDominates(i2.Block(), 0, x.Block()) {
										why = "reflect.TypeOf of both values are equal (guard at " + b.posOf(iff) + ") and the other value was successfully asserted to the same type"
									}
								}
							}
						})
					}
					// (b) pool of a single stored type / result of a constructor: not used in the library bodies
					if why != "" {
						l.add("R-PANIC", b.Name, key, b.posOf(x), Discharged, why, true)
					} else {
						l.add("R-PANIC", b.Name, key, b.posOf(x), Violated, "nothing establishes the dynamic type of the asserted value: the assertion panics when it differs", true)
					}
				case *ssa.MapUpdate:
					nM++
					key := fmt.Sprintf("%s: map update #%d is not on a nil map", fname(fn), nM)
					why := ""
					switch m := x.Map.(type) {
					case *ssa.MakeMap:
						why = "freshly made map"
					case *ssa.Phi:
						fresh := true
						for _, e := range m.Edges {
							if _, ok := e.(*ssa.MakeMap); !ok {
								fresh = false
							}
						}
						if fresh {
							why = "freshly made map"
						}
					}
					if why == "" {
						if ld, ok := x.Map.(*ssa.UnOp); ok && ld.Op == token.MUL {
							if al, ok := ld.X.(*ssa.Alloc); ok {
								all := true
								n := 0
								for _, r := range *al.Referrers() {
									if st, ok := r.(*ssa.Store); ok && st.Addr == ssa.Value(al) {
										n++
										if _, ok := st.Val.(*ssa.MakeMap); !ok {
											all = false
										}
									}
								}
								if all && n > 0 {
									why = "local holding a freshly made map"
								}
							}
						}
					}
					if why == "" && knownNonNilAt(x.Map, x.Block()) {
						why = "dominated by a non-nil test of the same map value"
					}
					if why == "" {
						// partialDoc.obj: R-KEYS (iv)
						if base, ok := pdLoad(x.Map, "obj"); ok {
							_ = base
							why = "member map of a partialDoc: covered by R-KEYS (insert happens under an obj != nil fact)"
						}
					}
					if why == "" {
						// a load of the same field/pointer path that was nil-tested
						if ld, ok := x.Map.(*ssa.UnOp); ok && knownNonNilByPath(ld, x.Block()) {
							why = "dominated by a non-nil test on the same access path"
						}
					}
					if why == "" {
						// *p re-loaded after a `*p == nil → return` test on the same pointer (no store through p in the function)
						if ld, ok := x.Map.(*ssa.UnOp); ok && ld.Op == token.MUL {
							stored := false
							allInstrs(fn, func(j ssa.Instruction) {
								if st, ok := j.(*ssa.Store); ok && st.Addr == ld.X {
									stored = true
								}
							})
							for _, bb := range fn.Blocks {
								iff, ok := bb.Instrs[len(bb.Instrs)-1].(*ssa.If)
								if !ok || stored {
									continue
								}
								tv, nnTrue, ok := nilTestOfCond(iff.Cond)
								if !ok {
									continue
								}
								l2, ok := tv.(*ssa.UnOp)
								if !ok || l2.Op != token.MUL || l2.X != ld.X {
									continue
								}
								s := 1
								if nnTrue {
									s = 0
								}
								if edgeDominates(bb, s, x.Block()) {
									why = "dominated by a non-nil test of a load through the same pointer (which the function never stores through)"
								}
							}
						}
					}
					if why == "" {
						// legacy: *doc where doc is a *partialDoc parameter: every caller passes the address of a non-nil map
						if ld, ok := x.Map.(*ssa.UnOp); ok {
							if p, ok := ld.X.(*ssa.Parameter); ok {
								if okc, w := b.legacyDocNonNil(fn, p); okc {
									why = w
								}
							}
						}
					}
					if why != "" {
						l.add("R-PANIC", b.Name, key, b.posOf(x), Discharged, why, true)
					} else {
						l.add("R-PANIC", b.Name, key, b.posOf(x), Violated, "the map may be nil here (assignment to entry in nil map)", true)
					}
				}
			})
		}
	}
}

// legacyDocNonNil: fn's parameter p is a *partialDoc (pointer to map); every
// library call site passes a pointer whose map is known non-nil: the result
// of intoDoc on its success edge, or the caller's own parameter (recursively).
func (b *Body) legacyDocNonNil(fn *ssa.Function, p *ssa.Parameter) (bool, string) {
	return b.legacyDocNonNilRec(fn, p, map[*ssa.Function]bool{})
}

func (b *Body) legacyDocNonNilRec(fn *ssa.Function, p *ssa.Parameter, seen map[*ssa.Function]bool) (bool, string) {
	if seen[fn] {
		return true, "(recursion)"
	}
	seen[fn] = true
	pi := paramIdx(p)
	n := 0
	for _, caller := range b.srcFuncs(b.Lib) {
		for _, cs := range callsTo(caller, func(cc *ssa.CallCommon) bool { return cc.StaticCallee() == fn }) {
			n++
			arg := cs.Common().Args[pi]
			ok := false
			if ex, isEx := arg.(*ssa.Extract); isEx {
				if call, isCall := ex.Tuple.(*ssa.Call); isCall {
					if f := call.Call.StaticCallee(); f != nil && f.Name() == "intoDoc" {
						for _, e := range errResultOf(call) {
							for _, t := range nilTests(caller, e) {
								if edgeDominates(t.Blk, 1-t.NonNilSucc, cs.Block()) {
									ok = true
								}
							}
						}
					}
				}
			}
			if q, isP := arg.(*ssa.Parameter); isP {
				if okq, _ := b.legacyDocNonNilRec(caller, q, seen); okq {
					ok = true
				}
			}
			if al, isAl := arg.(*ssa.Alloc); isAl {
				// address of a local map that a decoder filled and whose nil-ness was tested, or a fresh make
				_ = al
				if b.localMapNonNilAt(caller, al, cs) {
					ok = true
				}
			}
			if !ok {
				return false, ""
			}
		}
	}
	if n == 0 {
		return false, ""
	}
	return true, fmt.Sprintf("every one of the %d call sites passes a document whose map is non-nil (successful intoDoc, a tested local, or the caller's own such parameter)", n)
}

// localMapNonNilAt: the local map variable is known non-nil at the call site:
// a dominating `*local == nil → return` test, path-sensitively with the error facts known there.
func (b *Body) localMapNonNilAt(fn *ssa.Function, al *ssa.Alloc, site ssa.Instruction) bool {
	type fact struct {
		v      ssa.Value
		nonNil bool
	}
	var facts []fact
	for _, bb := range fn.Blocks {
		iff, ok := bb.Instrs[len(bb.Instrs)-1].(*ssa.If)
		if !ok {
			continue
		}
		_ = iff
		for si := range bb.Succs {
			if !edgeDominates(bb, si, site.Block()) {
				continue
			}
			for _, ef := range factsOnEdge(bb, si) {
				if x, nnTrue, ok := nilTestOfCond(ef.V); ok {
					facts = append(facts, fact{x, ef.True == nnTrue})
				}
			}
		}
	}
	removed := map[[2]*ssa.BasicBlock]bool{}
	any := false
	for _, bb := range fn.Blocks {
		iff, ok := bb.Instrs[len(bb.Instrs)-1].(*ssa.If)
		if !ok {
			continue
		}
		x, nnTrue, ok := nilTestOfCond(iff.Cond)
		if !ok {
			continue
		}
		for si, s := range bb.Succs {
			edgeNonNil := (si == 0) == nnTrue
			for _, f := range facts {
				if f.v == x && f.nonNil != edgeNonNil {
					removed[[2]*ssa.BasicBlock{bb, s}] = true
				}
			}
			if ld, isLd := x.(*ssa.UnOp); isLd && ld.X == ssa.Value(al) && edgeNonNil {
				removed[[2]*ssa.BasicBlock{bb, s}] = true
				any = true
			}
		}
	}
	if !any {
		return false
	}
	seen := map[*ssa.BasicBlock]bool{}
	var walk func(bb *ssa.BasicBlock) bool
	walk = func(bb *ssa.BasicBlock) bool {
		if bb == site.Block() {
			return true
		}
		if seen[bb] {
			return false
		}
		seen[bb] = true
		for _, s := range bb.Succs {
			if removed[[2]*ssa.BasicBlock{bb, s}] {
				continue
			}
			if walk(s) {
				return true
			}
		}
		return false
	}
	return !walk(fn.Blocks[0])
}
