package main

// Thorough-tier self validation of the checker (DESIGN.md §7): positive
// controls and overlay variants. Filled in by selfcheck_variants.go.

type SelfReport struct {
	Variants []VariantResult `json:"variants"`
}

type VariantResult struct {
	Name     string   `json:"name"`
	Kind     string   `json:"kind"` // "must-fire" | "must-stay-silent"
	Rules    []string `json:"rules"`
	Expected string   `json:"expected"`
	Observed string   `json:"observed"`
	OK       bool     `json:"ok"`
}

func (s *SelfReport) forRules(ids []string) any {
	if s == nil {
		return nil
	}
	want := map[string]bool{}
	for _, id := range ids {
		want[id] = true
	}
	var out []VariantResult
	for _, v := range s.Variants {
		for _, r := range v.Rules {
			if want[r] {
				out = append(out, v)
				break
			}
		}
	}
	return out
}

var selfValidationHook func(cfg *Config, need map[string]bool) *SelfReport

func runSelfValidation(cfg *Config, need map[string]bool) *SelfReport {
	if selfValidationHook == nil {
		return nil
	}
	return selfValidationHook(cfg, need)
}

func cmdSelfcheck(cfg *Config, opts *runOpts, args []string) int {
	rep := runSelfValidation(cfg, nil)
	if rep == nil {
		return 0
	}
	rc := 0
	for _, v := range rep.Variants {
		st := "ok  "
		if !v.OK {
			st = "FAIL"
			rc = 1
		}
		println(st, v.Kind, v.Name, "expected:", v.Expected, "observed:", v.Observed)
	}
	return rc
}
