package main

// R-CMD: the json-patch command folds Apply over the patch files in
// command-line order, prints exactly the fold's final value, and on any
// error writes nothing to standard output and exits non-zero.

import (
	"bytes"
	"fmt"
	"go/ast"
	"go/printer"
	"go/token"
	"go/types"
	"strings"

	"golang.org/x/tools/go/ssa"
)

func init() {
	register(&Rule{ID: "R-CMD", Doc: "command main: (i) every error-yielding call has its error tested and the non-nil edge reaches log.Fatal*/os.Exit(non-zero) before any write to standard output; (ii) every write to standard output happens only after all those tests; (iii) patches are decoded in flag order into the slot of their index, Apply's document argument is the loop-carried value phi(stdin bytes, previous result) and that value is the sole operand of the constant \"%s\" print; (iv) the file flag rejects missing paths and directories; (v) no exit call on the success path, no redirection of the std logger; (vi) the two commands are identical up to the import path",
		Run: ruleCmd, Min: map[string]int{"v5/cmd": 11, "legacy/cmd": 11}})
}

var nonReturning = map[string]bool{"log.Fatal": true, "log.Fatalf": true, "log.Fatalln": true, "os.Exit": true, "log.Panic": true, "log.Panicf": true, "log.Panicln": true}

// the exiting methods of a *log.Logger; they count when the logger is a package-level one of
// the command built by log.New(os.Stderr, …) and never assigned again
var loggerFatal = map[string]bool{"log.(*Logger).Fatal": true, "log.(*Logger).Fatalf": true, "log.(*Logger).Fatalln": true, "log.(*Logger).Panic": true, "log.(*Logger).Panicf": true, "log.(*Logger).Panicln": true}

func loggerToStderr(recv ssa.Value) bool {
	g := loadedGlobal(recv)
	if g == nil || g.Pkg == nil {
		return false
	}
	n, ok := 0, true
	for _, m := range g.Pkg.Members {
		fn, isFn := m.(*ssa.Function)
		if !isFn {
			continue
		}
		fns := []*ssa.Function{fn}
		fns = append(fns, fn.AnonFuncs...)
		for _, f := range fns {
			allInstrs(f, func(i ssa.Instruction) {
				switch x := i.(type) {
				case *ssa.Store:
					if x.Addr != ssa.Value(g) {
						// the variable's address stored somewhere: anyone may assign it
						if x.Val == ssa.Value(g) {
							ok = false
						}
						return
					}
					n++
					call, isCall := x.Val.(*ssa.Call)
					if !isCall || f.Name() != "init" || stdName(call.Call.StaticCallee()) != "log.New" {
						ok = false
						return
					}
					if w := loadedGlobal(unwrapConv(call.Call.Args[0])); w == nil || w.Name() != "Stderr" || w.Pkg == nil || w.Pkg.Pkg.Path() != "os" {
						ok = false
					}
				case *ssa.Call:
					// SetOutput on it redirects it
					if c := x.Call.StaticCallee(); c != nil && stdName(c) == "log.(*Logger).SetOutput" && len(x.Call.Args) > 0 && loadedGlobal(x.Call.Args[0]) == g {
						ok = false
					}
				}
			})
		}
	}
	return ok && n == 1
}

func isNonReturningCall(i ssa.Instruction) (bool, string) {
	switch x := i.(type) {
	case *ssa.Panic:
		return true, "panic"
	case *ssa.Call:
		if f := x.Call.StaticCallee(); f != nil {
			n := stdName(f)
			if loggerFatal[n] && len(x.Call.Args) > 0 && loggerToStderr(x.Call.Args[0]) {
				return true, n
			}
			if nonReturning[n] {
				if n == "os.Exit" {
					if k, ok := intConst(x.Call.Args[0]); ok && k == 0 {
						return true, "os.Exit(0)"
					}
				}
				return true, n
			}
			if failHelper(f, 0) {
				return true, fname(f) + " (reports and exits non-zero)"
			}
		}
	}
	return false, ""
}

// failHelper: a function of the command itself every return of which lies behind a call that
// does not return and exits non-zero (log.Printf + os.Exit(1), log.Fatalf behind a table of
// formats): calling it is an exit.
func failHelper(f *ssa.Function, depth int) bool {
	if f == nil || len(f.Blocks) == 0 || depth > 1 || f.Pkg == nil || f.Pkg.Pkg.Name() != "main" {
		return false
	}
	var exits []ssa.Instruction
	for _, bb := range f.Blocks {
		for _, ins := range bb.Instrs {
			call, ok := ins.(*ssa.Call)
			if !ok {
				continue
			}
			g := call.Call.StaticCallee()
			if g == nil {
				continue
			}
			n := stdName(g)
			switch {
			case loggerFatal[n] && len(call.Call.Args) > 0 && loggerToStderr(call.Call.Args[0]):
				exits = append(exits, ins)
			case nonReturning[n]:
				if n == "os.Exit" {
					if k, isK := intConst(call.Call.Args[0]); !isK || k == 0 {
						continue
					}
				}
				exits = append(exits, ins)
			case g != f && failHelper(g, depth+1):
				exits = append(exits, ins)
			}
		}
	}
	if len(exits) == 0 {
		return false
	}
	for _, bb := range f.Blocks {
		r, ok := bb.Instrs[len(bb.Instrs)-1].(*ssa.Return)
		if !ok {
			continue
		}
		behind := false
		for _, e := range exits {
			if e.Block() == r.Block() || e.Block().Dominates(r.Block()) {
				behind = true
			}
		}
		if !behind {
			return false
		}
	}
	return true
}

func isStdoutWrite(i ssa.Instruction) (bool, string) {
	call, ok := i.(*ssa.Call)
	if !ok {
		return false, ""
	}
	f := call.Call.StaticCallee()
	if f == nil {
		if call.Call.IsInvoke() && call.Call.Method.Name() == "Write" {
			if g := loadedGlobal(unwrapConv(call.Call.Value)); g != nil && g.Name() == "Stdout" {
				return true, "os.Stdout.Write"
			}
		}
		return false, ""
	}
	n := stdName(f)
	switch n {
	case "fmt.Print", "fmt.Printf", "fmt.Println":
		return true, n
	case "fmt.Fprint", "fmt.Fprintf", "fmt.Fprintln", "io.WriteString", "io.Copy":
		if g := loadedGlobal(unwrapConv(call.Call.Args[0])); g != nil && g.Name() == "Stdout" && g.Pkg != nil && g.Pkg.Pkg.Path() == "os" {
			return true, n + "(os.Stdout, …)"
		}
		if g := loadedGlobal(unwrapConv(call.Call.Args[0])); g != nil && stdAliasFree(g, "Stdout") {
			return true, n + "(" + g.Name() + " = os.Stdout, …)"
		}
	}
	if strings.HasPrefix(n, "os.(*File).Write") {
		if g := loadedGlobal(call.Call.Args[0]); g != nil && g.Name() == "Stdout" {
			return true, n + " on os.Stdout"
		}
	}
	if n == "bufio.NewWriter" {
		if g := loadedGlobal(unwrapConv(call.Call.Args[0])); g != nil && g.Name() == "Stdout" {
			return true, "bufio.NewWriter(os.Stdout)"
		}
	}
	return false, ""
}

// blockFatal: the block contains a non-returning call with a non-zero exit,
// with no standard-output write before it.
func blockFatal(bb *ssa.BasicBlock) (bool, string) {
	for _, ins := range bb.Instrs {
		if w, what := isStdoutWrite(ins); w {
			return false, "writes to standard output (" + what + ") before exiting"
		}
		if nr, what := isNonReturningCall(ins); nr {
			if what == "os.Exit(0)" {
				return false, "exits with status 0"
			}
			return true, what
		}
	}
	return false, "no log.Fatal*/os.Exit call"
}

func ruleCmd(c *Ctx) {
	type cmdSrc struct {
		label string
		text  string
	}
	var srcs []cmdSrc
	for _, b := range c.bodies() {
		l := c.L
		lab := b.Name + "/cmd"
		mainFn := fnOf(b.Cmd, "main")
		if mainFn == nil {
			l.add("R-CMD", lab, "anchor main", "", Undecided, "func main not found", false)
			continue
		}
		fns := b.srcFuncs(b.Cmd)
		add := func(key string, pos string, ok bool, good, bad string) {
			v, f := Discharged, good
			if !ok {
				v, f = Violated, bad
			}
			l.add("R-CMD", lab, key, pos, v, f, true)
		}

		// (i) error discipline, in every function of the command package
		nErrCalls := 0
		for _, fn := range fns {
			perCallee := map[string]int{}
			allInstrs(fn, func(i ssa.Instruction) {
				ci, ok := i.(*ssa.Call)
				if !ok {
					return
				}
				if _, isB := ci.Call.Value.(*ssa.Builtin); isB {
					return
				}
				hasErr := false
				switch t := ci.Type().(type) {
				case *types.Tuple:
					hasErr = t.Len() > 0 && isErrorType(t.At(t.Len()-1).Type())
				default:
					hasErr = isErrorType(ci.Type())
				}
				if !hasErr {
					return
				}
				if f := ci.Call.StaticCallee(); f != nil {
					n := stdName(f)
					if n == "fmt.Errorf" || n == "errors.New" {
						return // constructs an error, does not report one
					}
					if w, _ := isStdoutWrite(ci); w {
						return // the final print's own error is not part of the contract
					}
				}
				nErrCalls++
				cl := calleeLabel(&ci.Call)
				perCallee[cl]++
				key := fmt.Sprintf("%s: error of %s #%d is tested at once and a failure exits non-zero without output", fname(fn), cl, perCallee[cl])
				errs := errResultOf(ci)
				if len(errs) == 0 {
					add(key, b.posOf(ci), false, "", "the error result is dropped: a failure is ignored and the command carries on")
					return
				}
				verdict, why := false, "the error is never tested"
				// a function other than main that hands the call's error back as its own
				if fn != mainFn {
					for _, e := range errs {
						for _, r := range *e.Referrers() {
							if ret, isRet := r.(*ssa.Return); isRet && len(ret.Results) > 0 && ret.Results[len(ret.Results)-1] == e {
								verdict, why = true, "the function returns the error to its caller as it is"
							}
						}
					}
				}
				// handed straight to a helper of the command that exits when it is set
				for _, e := range errs {
					for _, r := range *e.Referrers() {
						hc, isCall := r.(*ssa.Call)
						if !isCall || !(hc.Block() == ci.Block() || (len(ci.Block().Succs) == 1 && ci.Block().Succs[0] == hc.Block())) {
							continue
						}
						g := hc.Call.StaticCallee()
						if g == nil || g.Pkg != fn.Pkg || len(g.Blocks) == 0 {
							continue
						}
						// nothing written between the call and the hand-over
						clean, after := true, false
						for _, x := range ci.Block().Instrs {
							if x == ssa.Instruction(ci) {
								after = true
								continue
							}
							if x == ssa.Instruction(hc) {
								break
							}
							if after {
								if w, _ := isStdoutWrite(x); w {
									clean = false
								}
							}
						}
						if !clean {
							continue
						}
						for ai, a := range hc.Call.Args {
							if a != e || ai >= len(g.Params) {
								continue
							}
							for _, t := range nilTests(g, g.Params[ai]) {
								if t.Blk != g.Blocks[0] {
									continue
								}
								if ok, what := blockFatal(t.Blk.Succs[t.NonNilSucc]); ok {
									entryClean := true
									for _, x := range g.Blocks[0].Instrs {
										if w, _ := isStdoutWrite(x); w {
											entryClean = false
										}
									}
									if entryClean {
										verdict, why = true, "handed at once to "+fname(g)+", which tests it first thing and calls "+what+" when it is set"
									}
								}
							}
						}
					}
				}
				for _, e := range errs {
					if verdict {
						break
					}
					// follow through phis (err is reassigned in loops)
					vals := map[ssa.Value]bool{e: true}
					for changed := true; changed; {
						changed = false
						allInstrs(fn, func(j ssa.Instruction) {
							if phi, ok := j.(*ssa.Phi); ok && !vals[phi] {
								for _, ed := range phi.Edges {
									if vals[ed] {
										vals[phi] = true
										changed = true
									}
								}
							}
						})
					}
					for v := range vals {
						for _, t := range nilTests(fn, v) {
							// the test must be the first thing that happens after the call:
							// same block, or the call's block jumps straight to it
							if !(t.Blk == ci.Block() || (len(ci.Block().Succs) == 1 && ci.Block().Succs[0] == t.Blk)) {
								continue
							}
							// nothing with an effect between the call and the test
							clean := true
							after := false
							for _, x := range ci.Block().Instrs {
								if x == ssa.Instruction(ci) {
									after = true
									continue
								}
								if after {
									if w, what := isStdoutWrite(x); w {
										clean, why = false, "standard output is written ("+what+") before the error is tested"
									}
								}
							}
							if !clean {
								continue
							}
							nb := t.Blk.Succs[t.NonNilSucc]
							if fn == mainFn {
								if ok, what := blockFatal(nb); ok {
									verdict, why = true, "tested at "+b.posOf(t.Blk.Instrs[len(t.Blk.Instrs)-1])+"; non-nil edge calls "+what
								} else {
									why = "non-nil edge at " + b.posOf(nb.Instrs[0]) + ": " + what
								}
							} else {
								// helper: the non-nil edge returns that error (or exits)
								if ok, what := blockFatal(nb); ok {
									verdict, why = true, "non-nil edge calls "+what
								} else if r, ok := nb.Instrs[len(nb.Instrs)-1].(*ssa.Return); ok && len(r.Results) > 0 {
									rv := retVal(r, len(r.Results)-1)
									if vals[rv] || wrapsValue(rv, v) || b.definitelyNonNilErr(rv, nb, 0) {
										verdict, why = true, "helper returns the error to its caller"
									} else {
										why = "the helper's non-nil edge returns " + describeValue(rv) + ", not the error it tested (the failure is lost)"
									}
								}
							}
						}
					}
				}
				add(key, b.posOf(ci), verdict, why, why)
			})
		}

		b.commandOptionsAndFiles(l, lab, fns)
		// (ii) stdout ownership + (v) exits only on error edges
		nOut := 0
		for _, fn := range fns {
			allInstrs(fn, func(i ssa.Instruction) {
				if w, what := isStdoutWrite(i); w {
					nOut++
					key := fmt.Sprintf("%s: standard-output write #%d (%s) happens only after every failure point", fname(fn), nOut, what)
					// no error-yielding call may be reachable after the write — in this function, and,
					// when the write sits in a helper, after the helper's call in its callers
					bad := ""
					var after func(at ssa.Instruction, depth int)
					after = func(at ssa.Instruction, depth int) {
						if depth > 4 {
							bad = "the write is nested too deeply in helpers to follow"
							return
						}
						for ins := range reachableAfter(b, at) {
							if ci, ok := ins.(*ssa.Call); ok && ins != at {
								if f := ci.Call.StaticCallee(); f != nil {
									if nr, what := isNonReturningCall(ci); nr {
										// leaving with a failure after the document is out is the write's own
										// failure or nothing: anything else (a sync of a pipe, a close) turns a
										// run that delivered its result into a failed one
										own := false
										if wc, isCall := at.(*ssa.Call); isCall && at.Parent() == ci.Parent() {
											for _, e := range errResultOf(wc) {
												for _, t := range nilTests(ci.Parent(), e) {
													if edgeDominates(t.Blk, t.NonNilSucc, ci.Block()) {
														own = true
													}
												}
											}
										}
										if !own && what != "os.Exit(0)" {
											bad = what + " at " + b.posOf(ci) + " can end the command with a failure after the document has been written, for a reason other than that write failing"
										}
										continue
									}
									if b.inRepoLib(f) || stdName(f) == "io/ioutil.ReadAll" || stdName(f) == "io.ReadAll" || stdName(f) == "os.ReadFile" || stdName(f) == "io/ioutil.ReadFile" {
										bad = "the fallible call " + calleeLabel(&ci.Call) + " at " + b.posOf(ci) + " can still run after output has been written (partial output on failure)"
									}
								}
							}
						}
						host := at.Parent()
						if host == mainFn {
							return
						}
						sites := 0
						for _, g := range fns {
							for _, cs := range callsTo(g, func(cc *ssa.CallCommon) bool { return cc.StaticCallee() == host }) {
								sites++
								after(cs, depth+1)
							}
						}
						if sites == 0 {
							bad = "standard output is written in " + fname(host) + ", which nothing in the command calls"
						}
					}
					after(i, 0)
					add(key, b.posOf(i), bad == "", "no fallible library or I/O call is reachable after this write", bad)
				}
			})
		}
		if nOut == 0 {
			add("main writes the result to standard output", b.rel(mainFn.Pos()), false, "", "no write to standard output found in the command")
		}
		{
			bad := ""
			for _, fn := range fns {
				if failHelper(fn, 0) {
					continue // its exit is unconditional by design; its call sites are judged
				}
				allInstrs(fn, func(i ssa.Instruction) {
					nr, what := isNonReturningCall(i)
					if !nr {
						return
					}
					// must be dominated by the non-nil edge of an error test
					dom := false
					for _, bb := range fn.Blocks {
						iff, ok := bb.Instrs[len(bb.Instrs)-1].(*ssa.If)
						if !ok {
							continue
						}
						x, nnTrue, ok := nilTestOfCond(iff.Cond)
						if !ok || !isErrorType(x.Type()) {
							continue
						}
						s := 1
						if nnTrue {
							s = 0
						}
						if edgeDominates(bb, s, i.Block()) {
							dom = true
						}
					}
					if !dom {
						bad = what + " at " + b.posOf(i) + " is not confined to an error edge: the success path can exit early or non-zero"
					}
				})
				allInstrs(fn, func(i ssa.Instruction) {
					if ci, ok := i.(*ssa.Call); ok {
						if f := ci.Call.StaticCallee(); f != nil {
							switch stdName(f) {
							case "log.SetOutput", "log.SetFlags", "log.SetPrefix":
								if stdName(f) == "log.SetOutput" {
									bad = "the std logger is redirected at " + b.posOf(i) + ": errors may no longer go to standard error"
								}
							}
						}
					}
				})
			}
			add("(v) exit calls only on error edges; std logger not redirected", b.rel(mainFn.Pos()), bad == "", "every log.Fatal*/os.Exit is dominated by the non-nil edge of an error test; no log.SetOutput", bad)
		}

		// (viii) no silent success: every way out of the command that is not an error exit has
		// written the result — an early `return` (empty input, nothing to do) leaves the patch
		// files unread, so a malformed one goes unreported and the exit status says success
		{
			key := "(viii) every normal exit of the command comes after the result was written"
			inCmdSet := map[*ssa.Function]bool{}
			for _, fn := range fns {
				inCmdSet[fn] = true
			}
			memo := map[*ssa.Function]int{}
			var mustPrint func(fn *ssa.Function, depth int) (bool, string)
			mustPrint = func(fn *ssa.Function, depth int) (bool, string) {
				if v, ok := memo[fn]; ok {
					return v == 1, ""
				}
				memo[fn] = 2
				if depth > 4 || len(fn.Blocks) == 0 {
					return false, ""
				}
				printsIn := func(bb *ssa.BasicBlock) bool {
					for _, ins := range bb.Instrs {
						if w, _ := isStdoutWrite(ins); w {
							return true
						}
						if call, ok := ins.(*ssa.Call); ok {
							if g := call.Call.StaticCallee(); g != nil && inCmdSet[g] && g != fn {
								if ok, _ := mustPrint(g, depth+1); ok {
									return true
								}
							}
						}
					}
					return false
				}
				ei := errResultIndex(fn)
				why := ""
				seen := map[*ssa.BasicBlock]bool{}
				var walk func(bb *ssa.BasicBlock) bool // true: a success exit reachable without printing
				walk = func(bb *ssa.BasicBlock) bool {
					if seen[bb] {
						return false
					}
					seen[bb] = true
					if printsIn(bb) {
						return false
					}
					for _, ins := range bb.Instrs {
						if nr, _ := isNonReturningCall(ins); nr {
							return false
						}
					}
					if r, ok := lastInstr(bb).(*ssa.Return); ok {
						if ei >= 0 && b.definitelyNonNilErr(retVal(r, ei), bb, 0) {
							return false
						}
						why = "the exit at " + b.posOf(r) + " of " + fname(fn) + " is reached without the result having been written"
						return true
					}
					for _, sx := range bb.Succs {
						if walk(sx) {
							return true
						}
					}
					return false
				}
				if walk(fn.Blocks[0]) {
					return false, why
				}
				memo[fn] = 1
				return true, ""
			}
			ok, why := mustPrint(mainFn, 0)
			add(key, b.rel(mainFn.Pos()), ok, "every path from main's entry to a normal exit passes the write of the result (in main or in a helper it must pass)", why+": the command exits 0 with no document although not every patch file has been read and decoded")
		}

		// (iii) order and chaining, (vii) one file per -p value. Both are statements about
		// where values come from; the command's functions may be cut into helpers in any way, so
		// values are followed through the command package: the result of a helper stands for
		// what the helper returns, a helper's parameter for what its callers hand in.
		inCmd := map[*ssa.Function]bool{}
		for _, fn := range fns {
			inCmd[fn] = true
		}
		var roots func(v ssa.Value, depth int) []ssa.Value
		roots = func(v ssa.Value, depth int) []ssa.Value {
			if depth > 8 || v == nil {
				return []ssa.Value{v}
			}
			switch x := v.(type) {
			case *ssa.MakeInterface:
				return roots(x.X, depth+1)
			case *ssa.ChangeInterface:
				return roots(x.X, depth+1)
			case *ssa.ChangeType:
				return roots(x.X, depth+1)
			case *ssa.Convert:
				return roots(x.X, depth+1)
			case *ssa.Extract:
				if call, ok := x.Tuple.(*ssa.Call); ok {
					if f := call.Call.StaticCallee(); f != nil && inCmd[f] && len(f.Blocks) > 0 {
						var out []ssa.Value
						for _, r := range returnsOf(f) {
							if x.Index < len(r.Results) && !isNilConst(r.Results[x.Index]) {
								out = append(out, roots(r.Results[x.Index], depth+1)...)
							}
						}
						return out
					}
				}
			case *ssa.Call:
				if f := x.Call.StaticCallee(); f != nil && inCmd[f] && len(f.Blocks) > 0 && f.Signature.Results().Len() == 1 {
					var out []ssa.Value
					for _, r := range returnsOf(f) {
						if !isNilConst(r.Results[0]) {
							out = append(out, roots(r.Results[0], depth+1)...)
						}
					}
					return out
				}
			case *ssa.Parameter:
				f := x.Parent()
				if f != mainFn && inCmd[f] {
					var out []ssa.Value
					n := 0
					for _, g := range fns {
						for _, cs := range callsTo(g, func(cc *ssa.CallCommon) bool { return cc.StaticCallee() == f }) {
							n++
							out = append(out, roots(cs.Common().Args[paramIdx(x)], depth+1)...)
						}
					}
					if n > 0 {
						return out
					}
				}
			}
			return []ssa.Value{v}
		}
		uniq := func(vs []ssa.Value) []ssa.Value {
			seen := map[ssa.Value]bool{}
			var out []ssa.Value
			for _, v := range vs {
				if !seen[v] {
					seen[v] = true
					out = append(out, v)
				}
			}
			return out
		}
		{
			key := "(iii) chaining: Apply's document is phi(stdin bytes, previous result); the printed value is that fold"
			var applyCall, readAll, decode *ssa.Call
			var applyFn *ssa.Function
			for _, fn := range fns {
				allInstrs(fn, func(i ssa.Instruction) {
					ci, ok := i.(*ssa.Call)
					if !ok {
						return
					}
					f := ci.Call.StaticCallee()
					if f == nil {
						return
					}
					switch {
					case f.Pkg != nil && f.Pkg == b.Lib && strings.HasPrefix(f.Name(), "Apply") && recvTypeName(f) == "Patch":
						applyCall, applyFn = ci, fn
					case f.Pkg != nil && f.Pkg == b.Lib && f.Name() == "DecodePatch":
						decode = ci
					case stdName(f) == "io/ioutil.ReadAll" || stdName(f) == "io.ReadAll":
						readAll = ci
					}
				})
			}
			if applyCall == nil || readAll == nil || decode == nil {
				add(key, b.rel(mainFn.Pos()), false, "", "the command does not call ReadAll, DecodePatch and Patch.Apply")
			} else {
				bad := ""
				if g := loadedGlobal(unwrapConv(readAll.Call.Args[0])); g == nil || (g.Name() != "Stdin" && !b.aliasOfStd(g, "Stdin")) {
					bad = "the document is not read from os.Stdin"
				}
				isStdin := func(v ssa.Value) bool {
					ex, ok := v.(*ssa.Extract)
					return ok && ex.Tuple == ssa.Value(readAll) && ex.Index == 0
				}
				isPrev := func(v ssa.Value) bool {
					ex, ok := v.(*ssa.Extract)
					return ok && ex.Tuple == ssa.Value(applyCall) && ex.Index == 0
				}
				// the loop-carried document
				var phi *ssa.Phi
				dr := uniq(roots(applyCall.Call.Args[1], 0))
				if len(dr) == 1 {
					phi, _ = dr[0].(*ssa.Phi)
				}
				if bad == "" && phi == nil {
					bad = "Apply's document argument is " + describeValue(applyCall.Call.Args[1]) + ", not a loop-carried value: every patch is applied to the same document instead of the previous result"
				}
				if bad == "" {
					hasSrc, hasPrev, other := false, false, false
					for _, e := range phi.Edges {
						for _, r := range uniq(roots(e, 0)) {
							switch {
							case isStdin(r):
								hasSrc = true
							case isPrev(r):
								hasPrev = true
							case r == ssa.Value(phi):
							default:
								other = true
							}
						}
					}
					if !hasSrc || !hasPrev || other {
						bad = "the loop-carried document is not phi(stdin bytes, result of the previous Apply)"
					}
				}
				if bad == "" {
					printed := false
					forAll := func(f func(ssa.Instruction)) {
						for _, g := range fns {
							allInstrs(g, f)
						}
					}
					forAll(func(i ssa.Instruction) {
						w, what := isStdoutWrite(i)
						if !w {
							return
						}
						call := i.(*ssa.Call)
						var operand ssa.Value
						switch {
						case what == "fmt.Printf":
							f, ok := strConst(call.Call.Args[0])
							if !ok || f != "%s" {
								bad = "the print format is not the constant \"%s\" (a document containing % would be mangled, or extra bytes are printed)"
								return
							}
							ops, ok := varargsOperands(call.Call.Args[1])
							if ok && len(ops) == 1 {
								operand = ops[0]
							}
						case strings.HasPrefix(what, "fmt.Fprintf("):
							// Fprintf(w, "%s", doc): Printf with the writer spelled out
							f, ok := strConst(call.Call.Args[1])
							if !ok || f != "%s" {
								bad = "the print format is not the constant \"%s\" (a document containing % would be mangled, or extra bytes are printed)"
								return
							}
							ops, ok := varargsOperands(call.Call.Args[2])
							if ok && len(ops) == 1 {
								operand = ops[0]
							}
						case strings.HasPrefix(what, "os.(*File).Write") || what == "os.Stdout.Write":
							if len(call.Call.Args) >= 2 {
								operand = call.Call.Args[1]
							} else if len(call.Call.Args) == 1 {
								operand = call.Call.Args[0]
							}
						case what == "fmt.Print" || what == "fmt.Fprint(os.Stdout, …)" || what == "io.WriteString(os.Stdout, …)":
							last := call.Call.Args[len(call.Call.Args)-1]
							if what == "io.WriteString(os.Stdout, …)" {
								operand = last
							} else if ops, ok := varargsOperands(last); ok && len(ops) == 1 {
								if mi, isMI := ops[0].(*ssa.MakeInterface); isMI && isStringType(mi.X.Type()) {
									operand = ops[0]
								}
							}
						default:
							bad = "the result is written with " + what + ", which does not write its operand byte for byte"
							return
						}
						or := uniq(roots(operand, 0))
						if operand != nil && len(or) == 1 && isStdin(or[0]) && emptyListPrint(call.Block(), applyCall, roots) {
							// the fold over no patches: the document as it was read
							return
						}
						if operand == nil || len(or) != 1 || or[0] != ssa.Value(phi) {
							bad = "the printed operand is not the final value of the fold"
							return
						}
						printed = true
					})
					if bad == "" && !printed {
						bad = "the fold's final value is never printed"
					}
				}
				// order: the patch applied in iteration k is the k-th element of a list whose
				// k-th element is the patch decoded from flag value k
				if bad == "" {
					recv := applyCall.Call.Args[0]
					okOrder := false
					if ld, ok := recv.(*ssa.UnOp); ok {
						if ia, ok := ld.X.(*ssa.IndexAddr); ok {
							if h := loopHeaderOf(applyCall.Block()); h != nil && isRangeIndex(h, ia.Index, ia.X) {
								lr := uniq(roots(ia.X, 0))
								isList := func(v ssa.Value) bool {
									for _, r := range uniq(roots(v, 0)) {
										for _, l0 := range lr {
											if r == l0 {
												return true
											}
										}
									}
									return false
								}
								isDecoded := func(v ssa.Value) bool {
									rs := uniq(roots(v, 0))
									if len(rs) == 0 {
										return false
									}
									for _, r := range rs {
										ex, ok := r.(*ssa.Extract)
										if !ok || ex.Tuple != ssa.Value(decode) || ex.Index != 0 {
											return false
										}
									}
									return true
								}
								for _, fn := range fns {
									allInstrs(fn, func(i ssa.Instruction) {
										switch x := i.(type) {
										case *ssa.Store:
											// list[i] = decoded, i the index of a loop over a whole slice
											sa, ok := x.Addr.(*ssa.IndexAddr)
											if !ok || !isList(sa.X) || !isDecoded(x.Val) {
												return
											}
											if h2 := loopHeaderOf(x.Block()); h2 != nil && b.indexIsRangeOverSomeSlice(h2, sa.Index) {
												okOrder = true
											}
										case *ssa.Phi:
											// list = append(list, decoded), once per iteration
											if !isLoopHeader(x.Block()) {
												return
											}
											inList := false
											for _, l0 := range lr {
												if l0 == ssa.Value(x) {
													inList = true
												}
											}
											if !inList {
												return
											}
											for _, e := range x.Edges {
												ap, ok := e.(*ssa.Call)
												if !ok || len(ap.Call.Args) != 2 {
													continue
												}
												if bi, ok := ap.Call.Value.(*ssa.Builtin); !ok || bi.Name() != "append" || ap.Call.Args[0] != ssa.Value(x) {
													continue
												}
												ops, ok := varargsOperands(ap.Call.Args[1])
												if !ok || len(ops) != 1 || !isDecoded(ops[0]) {
													continue
												}
												dom := true
												for _, src := range backEdgeSources(x.Block()) {
													if !ap.Block().Dominates(src) {
														dom = false
													}
												}
												if dom {
													okOrder = true
												}
											}
										}
									})
								}
							}
						}
					}
					if !okOrder {
						bad = "the patch applied in iteration k is not the k-th decoded patch in flag order (patches[i] := DecodePatch(file i); for range patches)"
					}
				}
				_ = applyFn
				add(key, b.posOf(applyCall), bad == "", "doc := phi(ReadAll(os.Stdin)#0, Apply#0); printed byte for byte; patches[i] = DecodePatch(ReadFile(flag i)) applied in list order", bad)
			}
		}

		// (vii) one file per -p value: the name handed to ReadFile in iteration i is value i of the
		// flag field (tagged short:"p") of the parsed options — not an element of a list derived
		// from it (a filtered, expanded or de-duplicated list silently drops or repeats files)
		reachMain := map[*ssa.Function]bool{mainFn: true}
		for changed := true; changed; {
			changed = false
			for fn := range reachMain {
				allInstrs(fn, func(i ssa.Instruction) {
					if ci, ok := i.(ssa.CallInstruction); ok {
						if g := ci.Common().StaticCallee(); g != nil && g.Pkg == mainFn.Pkg && !reachMain[g] {
							reachMain[g] = true
							changed = true
						}
					}
				})
			}
		}
		for _, fn := range fns {
			if !reachMain[fn] {
				continue // nothing the command runs: a method nobody calls reads no -p value
			}
			allInstrs(fn, func(i ssa.Instruction) {
				call, ok := i.(*ssa.Call)
				if !ok {
					return
				}
				f := call.Call.StaticCallee()
				if f == nil || (stdName(f) != "os.ReadFile" && stdName(f) != "io/ioutil.ReadFile") {
					return
				}
				key := "(vii) the file read in iteration i is the i-th -p value itself"
				bad := ""
				v := call.Call.Args[0]
				// through the accessor of the flag type
				if c2, ok := v.(*ssa.Call); ok && len(c2.Call.Args) == 1 {
					v = c2.Call.Args[0]
				}
				v = unwrapConv(v)
				// a helper's parameter: the value its (single) caller hands in, at the call site
				var site ssa.Instruction = call
				for d := 0; d < 4; d++ {
					p, isP := v.(*ssa.Parameter)
					if !isP || p.Parent() == mainFn || !inCmd[p.Parent()] {
						break
					}
					var sites []ssa.CallInstruction
					for _, g := range fns {
						sites = append(sites, callsTo(g, func(cc *ssa.CallCommon) bool { return cc.StaticCallee() == p.Parent() })...)
					}
					if len(sites) != 1 {
						break
					}
					v = unwrapConv(sites[0].Common().Args[paramIdx(p)])
					site = sites[0]
				}
				var ia *ssa.IndexAddr
				switch x := v.(type) {
				case *ssa.UnOp:
					ia, _ = x.X.(*ssa.IndexAddr)
				case *ssa.IndexAddr:
					ia = x
				}
				if ia == nil {
					bad = "the file name is " + describeValue(v) + ", not an element of the flag's value list"
				} else {
					h := loopHeaderOf(site.Block())
					if h == nil || !isRangeIndex(h, ia.Index, ia.X) {
						bad = "the file name is not the element at the index of a range over the whole list"
					}
					fieldTag := ""
					for _, lr := range uniq(roots(ia.X, 0)) {
						if ld, ok := lr.(*ssa.UnOp); ok {
							if fa, ok := ld.X.(*ssa.FieldAddr); ok {
								if st, ok := derefPtr(fa.X.Type()).Underlying().(*types.Struct); ok {
									fieldTag = st.Tag(fa.Field)
								}
							}
						}
					}
					if bad == "" && !strings.Contains(fieldTag, `short:"p"`) {
						bad = "the list the files are taken from is " + describeValue(ia.X) + ", not the -p field of the parsed options: a list computed from the flag values (pattern expansion, de-duplication, filtering) can drop a missing file without an error or apply a file a different number of times than it was given"
					}
				}
				add(key, b.posOf(call), bad == "", "ReadFile(options.<-p field>[i]) for i over the whole field", bad)
			})
		}

		// (iv) the file flag
		if uf := b.method(b.Cmd, "FileFlag", "UnmarshalFlag"); uf != nil {
			key := "(iv) FileFlag.UnmarshalFlag rejects a missing path and a directory"
			bad := ""
			var stat *ssa.Call
			chk := uf // the function that holds the check: the method, or the helper it calls
			allInstrs(uf, func(i ssa.Instruction) {
				if ci, ok := i.(*ssa.Call); ok {
					if f := ci.Call.StaticCallee(); f != nil && stdName(f) == "os.Stat" {
						stat = ci
					}
				}
			})
			if stat == nil {
				// the check extracted into a helper of the command: its error must fail the flag
				for _, hc := range callsTo(uf, func(cc *ssa.CallCommon) bool {
					f := cc.StaticCallee()
					return f != nil && inCmd[f] && len(f.Blocks) > 0
				}) {
					h := hc.Common().StaticCallee()
					var st2 *ssa.Call
					allInstrs(h, func(i ssa.Instruction) {
						if ci, ok := i.(*ssa.Call); ok {
							if f := ci.Call.StaticCallee(); f != nil && stdName(f) == "os.Stat" {
								st2 = ci
							}
						}
					})
					if st2 == nil {
						continue
					}
					passes := false
					for _, e := range errResultOf(hc) {
						for _, t := range nilTests(uf, e) {
							if b.rejects(t.Blk.Succs[t.NonNilSucc]) {
								passes = true
							}
						}
					}
					if hcCall, ok := hc.(*ssa.Call); ok && !passes {
						// `return helper(x)`: the helper's error is the method's
						for _, r := range returnsOf(uf) {
							if len(r.Results) == 1 && r.Results[0] == ssa.Value(hcCall) {
								passes = true
							}
						}
					}
					if passes {
						stat, chk = st2, h
					}
				}
			}
			if stat == nil {
				bad = "os.Stat is not consulted"
			} else {
				uf := chk
				okErr := false
				for _, e := range errResultOf(stat) {
					for _, t := range nilTests(uf, e) {
						if b.rejects(t.Blk.Succs[t.NonNilSucc]) {
							okErr = true
						}
					}
				}
				if !okErr {
					bad = "a failing os.Stat does not make the flag fail"
				}
				okDir := false
				allInstrs(uf, func(i ssa.Instruction) {
					ci, ok := i.(*ssa.Call)
					if !ok || !ci.Call.IsInvoke() || ci.Call.Method.Name() != "IsDir" {
						return
					}
					for _, r := range *ci.Referrers() {
						if iff, ok := r.(*ssa.If); ok {
							_, neg := stripNot(iff.Cond)
							s := 0
							if neg {
								s = 1
							}
							if b.rejects(iff.Block().Succs[s]) {
								okDir = true
							}
						}
					}
				})
				// the same test spelled on the mode bits: stat.Mode()&os.ModeDir != 0
				allInstrs(uf, func(i ssa.Instruction) {
					bo, ok := i.(*ssa.BinOp)
					if !ok || bo.Op != token.AND || okDir {
						return
					}
					k, isK := intConst(bo.Y)
					mc, isCall := bo.X.(*ssa.Call)
					if !isK || uint32(k) != 1<<31 || !isCall || !mc.Call.IsInvoke() || mc.Call.Method.Name() != "Mode" || bo.Referrers() == nil {
						return
					}
					for _, r := range *bo.Referrers() {
						cmp, ok := r.(*ssa.BinOp)
						if !ok || (cmp.Op != token.NEQ && cmp.Op != token.EQL) || cmp.Referrers() == nil {
							continue
						}
						if z, isZ := intConst(cmp.Y); !isZ || z != 0 {
							continue
						}
						for _, r2 := range *cmp.Referrers() {
							if iff, ok := r2.(*ssa.If); ok {
								dirSucc := 0
								if cmp.Op == token.EQL {
									dirSucc = 1
								}
								if b.rejects(iff.Block().Succs[dirSucc]) {
									okDir = true
								}
							}
						}
					}
				})
				if !okDir && bad == "" {
					bad = "a directory is accepted as a patch file"
				}
			}
			add(key, b.rel(uf.Pos()), bad == "", "os.Stat error -> error; IsDir() -> error", bad)
		}
		// the path that is kept for reading is the path that was checked: os.Stat follows
		// symbolic links before "..", filepath.Abs / Clean remove ".." lexically, so
		// "link/../x.json" names one file to the check and another to the later read
		if uf := b.method(b.Cmd, "FileFlag", "UnmarshalFlag"); uf != nil && len(uf.Params) >= 2 {
			key := "(iv) FileFlag.UnmarshalFlag keeps the path it checked"
			bad := ""
			nStore := 0
			allInstrs(uf, func(i ssa.Instruction) {
				st, ok := i.(*ssa.Store)
				if !ok || st.Addr != ssa.Value(uf.Params[0]) {
					return
				}
				nStore++
				v := st.Val
				for d := 0; d < 4; d++ {
					switch x := v.(type) {
					case *ssa.ChangeType:
						v = x.X
						continue
					case *ssa.Convert:
						v = x.X
						continue
					}
					break
				}
				if v == ssa.Value(uf.Params[1]) {
					return
				}
				if ex, ok := v.(*ssa.Extract); ok {
					if call, ok := ex.Tuple.(*ssa.Call); ok {
						bad = "the stored path is the result of " + calleeLabel(&call.Call) + ", not the string that was handed to os.Stat: a path through a symbolic link and \"..\" is checked as one file and read as another"
						return
					}
				}
				if call, ok := v.(*ssa.Call); ok {
					bad = "the stored path is the result of " + calleeLabel(&call.Call) + ", not the string that was handed to os.Stat: a path through a symbolic link and \"..\" is checked as one file and read as another"
					return
				}
				bad = "the stored path is " + describeValue(v) + ", not the flag's value"
			})
			if nStore == 0 {
				bad = "the flag's value is never stored"
			}
			add(key, b.rel(uf.Pos()), bad == "", "*f = FileFlag(value): the very string os.Stat was given", bad)
		}
		if uf := b.method(b.Cmd, "FileFlag", "UnmarshalFlag"); uf != nil {
		} else {
			l.add("R-CMD", lab, "(iv) FileFlag.UnmarshalFlag", "", Undecided, "method not found", false)
		}
		l.stat("R-CMD").Extra[lab+"_error_yielding_calls"] = nErrCalls

		// (vi) source text for the twin comparison
		if b.CmdPkg != nil {
			var buf bytes.Buffer
			for _, f := range b.CmdPkg.Syntax {
				// normalise the import path of the library
				ast.Inspect(f, func(n ast.Node) bool {
					if is, ok := n.(*ast.ImportSpec); ok && strings.Contains(is.Path.Value, "evanphx/json-patch") {
						is = &ast.ImportSpec{Name: is.Name, Path: &ast.BasicLit{Kind: token.STRING, Value: `"LIB"`}}
					}
					return true
				})
				cfg := printer.Config{Mode: printer.RawFormat}
				var fb bytes.Buffer
				cfg.Fprint(&fb, b.Fset, f)
				txt := fb.String()
				txt = strings.ReplaceAll(txt, `"github.com/evanphx/json-patch/v5"`, `"LIB"`)
				txt = strings.ReplaceAll(txt, `"github.com/evanphx/json-patch"`, `"LIB"`)
				buf.WriteString(txt)
			}
			srcs = append(srcs, cmdSrc{lab, buf.String()})
		}
	}
	if len(srcs) == 2 {
		same := stripComments(srcs[0].text) == stripComments(srcs[1].text)
		for _, s := range srcs {
			why := "the syntax trees of v5/cmd/json-patch and cmd/json-patch print identically once the library import path is normalised"
			if !same {
				why = "the two commands differ beyond the library import path (reported for information: each command is judged on its own by (i)-(v))"
			}
			c.L.add("R-CMD", s.label, "(vi) sibling comparison of the two commands", "", Info, why, false)
		}
	}
}

func stripComments(s string) string {
	var out []string
	for _, ln := range strings.Split(s, "\n") {
		if i := strings.Index(ln, "//"); i >= 0 && !strings.Contains(ln[:i], `"`) {
			ln = ln[:i]
		}
		ln = strings.TrimSpace(ln)
		if ln != "" {
			out = append(out, ln)
		}
	}
	return strings.Join(out, "\n")
}

func (b *Body) inRepoLib(f *ssa.Function) bool {
	return f != nil && f.Pkg != nil && (f.Pkg == b.Lib || f.Pkg == b.Codec)
}

// indexIsRangeOverSomeSlice: idx is the induction variable of the range loop with header h.
func (b *Body) indexIsRangeOverSomeSlice(h *ssa.BasicBlock, idx ssa.Value) bool {
	// go/ssa range-over-slice: idx = phi(-1, idx+1) incremented in the header; the
	// loop runs while idx+1 < len(slice)
	for _, ins := range h.Instrs {
		bo, ok := ins.(*ssa.BinOp)
		if !ok || bo.Op != token.ADD || bo != idx {
			continue
		}
		if k, ok := intConst(bo.Y); !ok || k != 1 {
			continue
		}
		if phi, ok := bo.X.(*ssa.Phi); ok {
			for _, e := range phi.Edges {
				if k, ok := intConst(e); ok && k == -1 {
					return true
				}
			}
		}
	}
	return false
}

// emptyListPrint: blk is reached only when the list of patches the apply loop runs over is
// empty (a dominating len(list) == 0 fact): what the fold yields then is its start value.
func emptyListPrint(blk *ssa.BasicBlock, applyCall *ssa.Call, roots func(ssa.Value, int) []ssa.Value) bool {
	ld, ok := applyCall.Call.Args[0].(*ssa.UnOp)
	if !ok {
		return false
	}
	ia, ok := ld.X.(*ssa.IndexAddr)
	if !ok {
		return false
	}
	list := map[ssa.Value]bool{}
	for _, r := range roots(ia.X, 0) {
		list[r] = true
	}
	for _, f := range dominatingFacts(blk) {
		bo, ok := f.V.(*ssa.BinOp)
		if !ok {
			continue
		}
		c, ok := bo.X.(*ssa.Call)
		if !ok || len(c.Call.Args) != 1 {
			continue
		}
		if bi, ok := c.Call.Value.(*ssa.Builtin); !ok || bi.Name() != "len" {
			continue
		}
		same := false
		for _, r := range roots(c.Call.Args[0], 0) {
			if list[r] {
				same = true
			}
		}
		k, isK := intConst(bo.Y)
		if !same || !isK {
			continue
		}
		switch {
		case k == 0 && bo.Op == token.EQL && f.True, k == 0 && bo.Op == token.NEQ && !f.True,
			k == 0 && bo.Op == token.GTR && !f.True, k == 0 && bo.Op == token.LEQ && f.True,
			k == 1 && bo.Op == token.LSS && f.True, k == 1 && bo.Op == token.GEQ && !f.True:
			return true
		}
	}
	return false
}

// aliasOfStd: g is a package-level variable of the command whose only store, in the package
// initialiser, is os.<name> (a seam for tests: `var stdin io.Reader = os.Stdin`).
func (b *Body) aliasOfStd(g *ssa.Global, name string) bool {
	if g == nil || g.Pkg == nil || g.Pkg.Pkg.Name() != "main" {
		return false
	}
	sts := b.globalStores(g)
	if len(sts) != 1 || sts[0].Parent() == nil || sts[0].Parent().Name() != "init" {
		return false
	}
	v := sts[0].Val
	for {
		switch x := v.(type) {
		case *ssa.MakeInterface:
			v = x.X
			continue
		case *ssa.ChangeInterface:
			v = x.X
			continue
		}
		break
	}
	og := loadedGlobal(v)
	return og != nil && og.Name() == name && og.Pkg != nil && og.Pkg.Pkg.Path() == "os"
}

// stdAliasFree: the same test as aliasOfStd without a Body at hand — g belongs to a main
// package, is stored exactly once, in the package initialiser, and that store is os.<name>.
func stdAliasFree(g *ssa.Global, name string) bool {
	if g == nil || g.Pkg == nil || g.Pkg.Pkg.Name() != "main" {
		return false
	}
	var stores []*ssa.Store
	var visit func(f *ssa.Function)
	visit = func(f *ssa.Function) {
		for _, bb := range f.Blocks {
			for _, ins := range bb.Instrs {
				if st, ok := ins.(*ssa.Store); ok && st.Addr == ssa.Value(g) {
					stores = append(stores, st)
				}
			}
		}
		for _, a := range f.AnonFuncs {
			visit(a)
		}
	}
	for _, m := range g.Pkg.Members {
		if f, ok := m.(*ssa.Function); ok {
			visit(f)
		}
	}
	if len(stores) != 1 || stores[0].Parent().Name() != "init" {
		return false
	}
	v := stores[0].Val
	for {
		switch x := v.(type) {
		case *ssa.MakeInterface:
			v = x.X
			continue
		case *ssa.ChangeInterface:
			v = x.X
			continue
		}
		break
	}
	og := loadedGlobal(v)
	return og != nil && og.Name() == name && og.Pkg != nil && og.Pkg.Pkg.Path() == "os"
}
