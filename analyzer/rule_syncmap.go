package main

// R-GLOBALS, second half: what a package-level sync.Map *holds*. The map's
// own methods are synchronised, the values it hands out are not: whatever is
// stored becomes shared between all goroutines (and all later calls), so
//
//   - nothing reachable from a loaded value is ever written, and
//   - nothing reachable from a stored value is written after the store.
//
// The analysis is an alias flow (not a data flow): from each loaded / stored
// value through type assertions, field and element addresses, loads of
// reference-typed contents, slices, phis, locals, parameters of library
// functions, their results, and struct fields the value is stored into
// (field-based: every load of such a field is shared as well). A write is a
// store through a shared address, a map update / delete on a shared map, a
// copy into or an append onto a shared slice, or a std call from the table of
// writers with a shared argument.

import (
	"fmt"
	"go/token"
	"go/types"
	"sort"
	"strings"

	"golang.org/x/tools/go/ssa"
)

func init() { extraGlobalsHook = ruleSyncMapContents }

// refLike: a value of this type can refer to memory shared with its source.
func refLike(t types.Type) bool {
	switch u := types.Unalias(t).Underlying().(type) {
	case *types.Pointer, *types.Slice, *types.Map, *types.Interface, *types.Chan:
		return true
	case *types.Struct:
		for i := 0; i < u.NumFields(); i++ {
			if refLike(u.Field(i).Type()) {
				return true
			}
		}
	case *types.Array:
		return refLike(u.Elem())
	case *types.Tuple:
		for i := 0; i < u.Len(); i++ {
			if refLike(u.At(i).Type()) {
				return true
			}
		}
	}
	return false
}

type aliasFlow struct {
	b       *Body
	fns     []*ssa.Function
	inFn    map[*ssa.Function]bool
	shared  map[ssa.Value]bool
	holds   map[*ssa.Alloc]bool // local variable that holds a shared reference
	fields  map[string]bool     // Type.field that holds a shared reference
	params  map[*ssa.Function]map[int]bool
	results map[*ssa.Function]map[int]bool
	why     map[ssa.Value]string
}

func (a *aliasFlow) mark(v ssa.Value, why string) bool {
	if v == nil || a.shared[v] {
		return false
	}
	if _, isC := v.(*ssa.Const); isC {
		return false
	}
	a.shared[v] = true
	a.why[v] = why
	return true
}

func (a *aliasFlow) run() {
	for changed := true; changed; {
		changed = false
		for _, fn := range a.fns {
			for i, p := range fn.Params {
				if a.params[fn][i] && a.mark(p, "parameter receiving a shared value") {
					changed = true
				}
			}
			for _, bb := range fn.Blocks {
				for _, ins := range bb.Instrs {
					switch x := ins.(type) {
					case *ssa.TypeAssert:
						if a.shared[x.X] && refLike(x.Type()) && a.mark(x, "") {
							changed = true
						}
					case *ssa.ChangeType:
						if a.shared[x.X] && a.mark(x, "") {
							changed = true
						}
					case *ssa.ChangeInterface:
						if a.shared[x.X] && a.mark(x, "") {
							changed = true
						}
					case *ssa.MakeInterface:
						if a.shared[x.X] && a.mark(x, "") {
							changed = true
						}
					case *ssa.Convert:
						if a.shared[x.X] && refLike(x.Type()) && refLike(x.X.Type()) && a.mark(x, "") {
							changed = true
						}
					case *ssa.Slice:
						if a.shared[x.X] && a.mark(x, "") {
							changed = true
						}
					case *ssa.FieldAddr:
						if a.shared[x.X] && a.mark(x, "") {
							changed = true
						}
					case *ssa.IndexAddr:
						if a.shared[x.X] && a.mark(x, "") {
							changed = true
						}
					case *ssa.Field:
						if a.shared[x.X] && refLike(x.Type()) && a.mark(x, "") {
							changed = true
						}
					case *ssa.Index:
						if a.shared[x.X] && refLike(x.Type()) && a.mark(x, "") {
							changed = true
						}
					case *ssa.Lookup:
						if a.shared[x.X] && refLike(x.Type()) && a.mark(x, "") {
							changed = true
						}
					case *ssa.Range:
						if a.shared[x.X] && a.mark(x, "") {
							changed = true
						}
					case *ssa.Next:
						if a.shared[x.Iter] && a.mark(x, "") {
							changed = true
						}
					case *ssa.Extract:
						if a.shared[x.Tuple] && refLike(x.Type()) && a.mark(x, "") {
							changed = true
						}
					case *ssa.Phi:
						for _, e := range x.Edges {
							if a.shared[e] && a.mark(x, "") {
								changed = true
							}
						}
					case *ssa.UnOp:
						if x.Op != token.MUL {
							continue
						}
						switch ad := x.X.(type) {
						case *ssa.Alloc:
							if a.holds[ad] && refLike(x.Type()) && a.mark(x, "") {
								changed = true
							}
						case *ssa.FieldAddr:
							fr := fieldOfAddr(ad)
							if a.fields[fr.Type+"."+fr.Field] && refLike(x.Type()) && a.mark(x, "load of "+fr.Type+"."+fr.Field+", which holds a shared value") {
								changed = true
							}
						}
						if a.shared[x.X] && refLike(x.Type()) && a.mark(x, "") {
							changed = true
						}
						// a field / element of a local copy of a shared struct value
						if al, ok := rootOfAddr(x.X).(*ssa.Alloc); ok && x.X != ssa.Value(al) && a.holds[al] && refLike(x.Type()) && a.mark(x, "") {
							changed = true
						}
					case *ssa.Store:
						if !a.shared[x.Val] {
							continue
						}
						switch ad := x.Addr.(type) {
						case *ssa.Alloc:
							if !a.holds[ad] {
								a.holds[ad] = true
								changed = true
							}
						case *ssa.FieldAddr:
							fr := fieldOfAddr(ad)
							k := fr.Type + "." + fr.Field
							if fr.Type != "" && !a.fields[k] {
								a.fields[k] = true
								changed = true
							}
						}
					case *ssa.MakeClosure:
						// captured shared values: the closure body sees them as free variables
						if cf, ok := x.Fn.(*ssa.Function); ok {
							for i, bnd := range x.Bindings {
								if (a.shared[bnd] || isHeld(a, bnd)) && i < len(cf.FreeVars) && a.mark(cf.FreeVars[i], "captured shared value") {
									changed = true
								}
							}
						}
					case *ssa.Return:
						for i, r := range x.Results {
							if a.shared[r] {
								if a.results[fn] == nil {
									a.results[fn] = map[int]bool{}
								}
								if !a.results[fn][i] {
									a.results[fn][i] = true
									changed = true
								}
							}
						}
					}
					if ci, ok := ins.(ssa.CallInstruction); ok {
						com := ci.Common()
						if bi, ok := com.Value.(*ssa.Builtin); ok {
							if bi.Name() == "append" && len(com.Args) > 0 && a.shared[com.Args[0]] {
								if v, ok := ins.(ssa.Value); ok && a.mark(v, "") {
									changed = true
								}
							}
							continue
						}
						args := callArgs(com)
						for _, f := range a.b.callees(com) {
							if !a.inFn[f] {
								if stdAliasArg0[stdName(f)] && len(args) > 0 && a.shared[args[0]] {
									if v, ok := ins.(ssa.Value); ok && a.mark(v, "") {
										changed = true
									}
								}
								continue
							}
							for i, arg := range args {
								if a.shared[arg] && i < len(f.Params) {
									if a.params[f] == nil {
										a.params[f] = map[int]bool{}
									}
									if !a.params[f][i] {
										a.params[f][i] = true
										changed = true
									}
								}
							}
							if v, ok := ins.(ssa.Value); ok {
								for i := range a.results[f] {
									if f.Signature.Results().Len() == 1 && i == 0 {
										if a.mark(v, "result of "+fname(f)+", which returns a shared value") {
											changed = true
										}
									} else {
										for _, r := range *v.Referrers() {
											if ex, ok := r.(*ssa.Extract); ok && ex.Index == i && a.mark(ex, "result of "+fname(f)) {
												changed = true
											}
										}
									}
								}
							}
						}
					}
				}
			}
		}
	}
}

func isHeld(a *aliasFlow, v ssa.Value) bool {
	al, ok := v.(*ssa.Alloc)
	return ok && a.holds[al]
}

// writes lists the instructions that write into shared memory. only, if
// non-nil, restricts the census to those instructions (of one function).
func (a *aliasFlow) writes(only map[ssa.Instruction]bool, onlyFn *ssa.Function) []string {
	var out []string
	for _, fn := range a.fns {
		if fn.Name() == "init" && fn.Parent() == nil {
			continue
		}
		allInstrs(fn, func(i ssa.Instruction) {
			if only != nil && fn == onlyFn && !only[i] {
				return
			}
			switch x := i.(type) {
			case *ssa.Store:
				if _, isAlloc := x.Addr.(*ssa.Alloc); isAlloc {
					return
				}
				if a.shared[x.Addr] {
					out = append(out, fmt.Sprintf("%s stores through it at %s", fname(fn), a.b.posOf(i)))
				}
			case *ssa.MapUpdate:
				if a.shared[x.Map] {
					out = append(out, fmt.Sprintf("%s updates the map at %s", fname(fn), a.b.posOf(i)))
				}
			case ssa.CallInstruction:
				com := x.Common()
				if bi, ok := com.Value.(*ssa.Builtin); ok {
					switch bi.Name() {
					case "delete", "copy", "append":
						if len(com.Args) > 0 && a.shared[com.Args[0]] {
							out = append(out, fmt.Sprintf("%s applies %s to it at %s", fname(fn), bi.Name(), a.b.posOf(i)))
						}
					case "clear":
						if len(com.Args) > 0 && a.shared[com.Args[0]] {
							out = append(out, fmt.Sprintf("%s clears it at %s", fname(fn), a.b.posOf(i)))
						}
					}
					return
				}
				f := com.StaticCallee()
				if f == nil || a.inFn[f] {
					return
				}
				name := stdName(f)
				if idxs, ok := stdWrites[name]; ok {
					args := callArgs(com)
					for _, k := range idxs {
						if k < len(args) && a.shared[args[k]] {
							out = append(out, fmt.Sprintf("%s hands it to %s (a writer) at %s", fname(fn), name, a.b.posOf(i)))
						}
					}
				}
			}
		})
	}
	sort.Strings(out)
	return out
}

func newAliasFlow(b *Body, fns []*ssa.Function) *aliasFlow {
	a := &aliasFlow{b: b, fns: fns, inFn: map[*ssa.Function]bool{}, shared: map[ssa.Value]bool{}, holds: map[*ssa.Alloc]bool{}, fields: map[string]bool{},
		params: map[*ssa.Function]map[int]bool{}, results: map[*ssa.Function]map[int]bool{}, why: map[ssa.Value]string{}}
	for _, f := range fns {
		a.inFn[f] = true
	}
	return a
}

func ruleSyncMapContents(c *Ctx, b *Body, pkg *ssa.Package, lab string, g *ssa.Global) {
	l := c.L
	eff := c.effFor(b)
	key := "contents of sync.Map " + g.Name() + ": nothing reachable from a loaded value is written, nothing reachable from a stored value is written after the store"
	type site struct {
		fn   *ssa.Function
		call ssa.CallInstruction
		name string
	}
	var sites []site
	for _, fn := range eff.fns {
		allInstrs(fn, func(i ssa.Instruction) {
			ci, ok := i.(ssa.CallInstruction)
			if !ok {
				return
			}
			f := ci.Common().StaticCallee()
			if f == nil || f.Signature.Recv() == nil || len(ci.Common().Args) == 0 || ci.Common().Args[0] != ssa.Value(g) {
				return
			}
			sites = append(sites, site{fn, ci, f.Name()})
		})
	}
	if len(sites) == 0 {
		l.add("R-GLOBALS", lab, key, b.rel(g.Pos()), Discharged, "the map is never used", false)
		return
	}
	b.cacheKeyCovers(l, lab, g, eff.fns)
	// (1) loaded values
	ld := newAliasFlow(b, eff.fns)
	nLoad, nStore := 0, 0
	for _, s := range sites {
		v, isV := s.call.(ssa.Value)
		switch s.name {
		case "Load", "LoadOrStore", "LoadAndDelete", "Swap":
			if !isV {
				continue
			}
			for _, r := range *v.Referrers() {
				if ex, ok := r.(*ssa.Extract); ok && ex.Index == 0 {
					ld.mark(ex, "value loaded from "+g.Name()+" at "+b.posOf(s.call))
					nLoad++
				}
			}
		case "Range":
			// the callback's parameters
			if len(s.call.Common().Args) > 1 {
				var cf *ssa.Function
				switch f := s.call.Common().Args[1].(type) {
				case *ssa.MakeClosure:
					cf, _ = f.Fn.(*ssa.Function)
				case *ssa.Function:
					cf = f
				}
				if cf != nil {
					for _, p := range cf.Params {
						ld.mark(p, "value visited by Range over "+g.Name())
						nLoad++
					}
				}
			}
		}
	}
	ld.run()
	bad := ld.writes(nil, nil)
	// (2) stored values: writes after the store
	for _, s := range sites {
		idx := -1
		switch s.name {
		case "Store", "LoadOrStore", "Swap":
			idx = 2
		case "CompareAndSwap":
			idx = 3
		}
		if idx < 0 || idx >= len(s.call.Common().Args) {
			continue
		}
		v := s.call.Common().Args[idx]
		for {
			if mi, ok := v.(*ssa.MakeInterface); ok {
				v = mi.X
				continue
			}
			if ct, ok := v.(*ssa.ChangeType); ok {
				v = ct.X
				continue
			}
			break
		}
		if mc, isMC := v.(*ssa.MakeClosure); isMC {
			// a published closure shares the variables it captured: one that is written after
			// the store needs a happens-before edge to the closure's reads — the closure waits
			// on a captured sync.WaitGroup before it reads, and the writer signals Done after
			// the write (the idiom of the inherited encoder cache)
			cf, _ := mc.Fn.(*ssa.Function)
			after := reachableAfter(b, s.call)
			for bi, bnd := range mc.Bindings {
				cell, ok := bnd.(*ssa.Alloc)
				if !ok || cf == nil || bi >= len(cf.FreeVars) {
					continue
				}
				var lateWrite *ssa.Store
				for _, r := range *cell.Referrers() {
					if st, ok := r.(*ssa.Store); ok && st.Addr == ssa.Value(cell) && after[st] {
						lateWrite = st
					}
				}
				if lateWrite == nil {
					continue
				}
				nStore++
				fv := cf.FreeVars[bi]
				// reader side: a WaitGroup.Wait on a captured cell dominates every load of fv
				var waits []*ssa.Call
				allInstrs(cf, func(i ssa.Instruction) {
					if c2, ok := i.(*ssa.Call); ok {
						if g := c2.Call.StaticCallee(); g != nil && stdName(g) == "sync.(*WaitGroup).Wait" {
							if _, isFV := c2.Call.Args[0].(*ssa.FreeVar); isFV {
								waits = append(waits, c2)
							}
						}
					}
				})
				readerOK := len(waits) > 0
				for _, r := range *fv.Referrers() {
					ld, ok := r.(*ssa.UnOp)
					if !ok {
						continue
					}
					dom := false
					for _, w := range waits {
						if b.instrDominates(w, ld) {
							dom = true
						}
					}
					if !dom {
						readerOK = false
					}
				}
				// writer side: Done on the captured WaitGroup after the write
				writerOK := false
				if len(waits) > 0 {
					wgFV := waits[0].Call.Args[0].(*ssa.FreeVar)
					wi := -1
					for k, f2 := range cf.FreeVars {
						if f2 == wgFV {
							wi = k
						}
					}
					if wi >= 0 && wi < len(mc.Bindings) {
						wgCell := mc.Bindings[wi]
						allInstrs(s.fn, func(i ssa.Instruction) {
							if c2, ok := i.(*ssa.Call); ok {
								if g := c2.Call.StaticCallee(); g != nil && stdName(g) == "sync.(*WaitGroup).Done" && c2.Call.Args[0] == wgCell && b.instrDominates(lateWrite, c2) {
									writerOK = true
								}
							}
						})
					}
				}
				if !readerOK || !writerOK {
					bad = append(bad, fmt.Sprintf("%s writes the variable %s captured by the closure published at %s (store at %s) without the wait/done hand-over: another goroutine that loads the closure can run it while the variable is still unset or being written", fname(s.fn), fv.Name(), b.posOf(s.call), b.posOf(lateWrite)))
				}
			}
			continue
		}
		if !refLike(v.Type()) {
			continue
		}
		if _, isFn := v.Type().Underlying().(*types.Signature); isFn {
			continue
		}
		nStore++
		st := newAliasFlow(b, eff.fns)
		st.mark(v, "value stored into "+g.Name()+" at "+b.posOf(s.call))
		st.run()
		after := reachableAfter(b, s.call)
		for _, w := range st.writes(after, s.fn) {
			bad = append(bad, w+" (after it was stored at "+b.posOf(s.call)+")")
		}
	}
	l.stat("R-GLOBALS").Extra[lab+"_syncmap_"+g.Name()] = fmt.Sprintf("%d method call site(s), %d loaded value(s), %d stored reference(s), %d shared SSA values followed", len(sites), nLoad, nStore, len(ld.shared))
	if len(bad) > 0 {
		if len(bad) > 4 {
			bad = append(bad[:4], fmt.Sprintf("… %d more", len(bad)-4))
		}
		l.add("R-GLOBALS", lab, key, b.rel(g.Pos()), Violated, "a value held by the map is shared by every goroutine and every later call, and it is written: "+strings.Join(bad, "; "), true)
		return
	}
	l.add("R-GLOBALS", lab, key, b.rel(g.Pos()), Discharged, fmt.Sprintf("%d method call site(s); %d loaded and %d stored reference(s) followed through %d aliases, fields %s: no store, map update, delete, copy, append or writing std call reaches them", len(sites), nLoad, nStore, len(ld.shared), fieldList(ld.fields)), true)
}

func fieldList(m map[string]bool) string {
	var out []string
	for k := range m {
		out = append(out, k)
	}
	sort.Strings(out)
	if len(out) == 0 {
		return "(none)"
	}
	return strings.Join(out, ", ")
}
