package main

// Loading of the three code bodies of /repo (v5 library + embedded codec +
// command; legacy root package + command) as type-checked syntax and SSA.
// Nothing from /repo is ever compiled to an executable or run.

import (
	"fmt"
	"go/token"
	"go/types"
	"os"
	"path/filepath"
	"sort"
	"strings"

	"golang.org/x/tools/go/packages"
	"golang.org/x/tools/go/ssa"
	"golang.org/x/tools/go/ssa/ssautil"
)

// Config of one analysis run.
type Config struct {
	Repo     string            // root of the tree to analyse (default /repo)
	Overlay  map[string][]byte // absolute path -> replacement content
	GOARCH   string            // "" = host (amd64)
	Tags     string            // build tags, comma separated
	CfgLabel string
}

// Body is one loaded code body.
type Body struct {
	helperValMemo    map[interface{}]int
	wrapDepth        int
	initReachMemo    map[*ssa.Function]map[int]bool
	Name             string // "v5" or "legacy"
	Dir              string
	Pkgs             []*packages.Package
	Prog             *ssa.Program
	Fset             *token.FileSet
	Lib              *ssa.Package // the jsonpatch package
	Codec            *ssa.Package // v5 only: internal/json
	Cmd              *ssa.Package // cmd/json-patch
	errChainNonEmpty func(ssa.Value) bool
	Repo             string

	LibPkg, CodecPkg, CmdPkg *packages.Package

	// caches
	idxCache  map[ssa.Instruction]int
	pdomCache map[*ssa.Function]*postDom
	implCache map[string][]*ssa.Function
	roleCache map[string]*ssa.Function
}

const legacyGoMod = `module github.com/evanphx/json-patch

go 1.18

require github.com/jessevdk/go-flags v1.6.1

require golang.org/x/sys v0.21.0 // indirect
`

func loadEnv(cfg *Config) []string {
	env := os.Environ()
	env = append(env, "GOFLAGS=-mod=mod", "GOPROXY=off", "GOSUMDB=off", "GOTOOLCHAIN=local", "GOWORK=off", "CGO_ENABLED=0")
	if cfg.GOARCH != "" {
		env = append(env, "GOARCH="+cfg.GOARCH)
	}
	return env
}

func loadBody(cfg *Config, name string) (*Body, error) {
	b := &Body{Name: name, Repo: cfg.Repo, idxCache: map[ssa.Instruction]int{}, pdomCache: map[*ssa.Function]*postDom{}, implCache: map[string][]*ssa.Function{}}
	pc := &packages.Config{
		Mode:    packages.LoadAllSyntax,
		Env:     loadEnv(cfg),
		Overlay: map[string][]byte{},
		Tests:   false,
	}
	if cfg.Tags != "" {
		pc.BuildFlags = []string{"-tags=" + cfg.Tags}
	}
	for k, v := range cfg.Overlay {
		pc.Overlay[k] = v
	}
	var patterns []string
	switch name {
	case "v5":
		b.Dir = filepath.Join(cfg.Repo, "v5")
		patterns = []string{"./..."}
	case "legacy":
		b.Dir = cfg.Repo
		gomod := filepath.Join(cfg.Repo, "go.mod")
		if _, err := os.Stat(gomod); err != nil {
			if _, ok := pc.Overlay[gomod]; !ok {
				pc.Overlay[gomod] = []byte(legacyGoMod)
			}
			sum, err := os.ReadFile(filepath.Join(cfg.Repo, "v5", "go.sum"))
			if err != nil {
				return nil, fmt.Errorf("legacy load: cannot read v5/go.sum: %v", err)
			}
			pc.Overlay[filepath.Join(cfg.Repo, "go.sum")] = sum
		}
		patterns = []string{".", "./cmd/..."}
	default:
		return nil, fmt.Errorf("unknown body %q", name)
	}
	pc.Dir = b.Dir
	pkgs, err := packages.Load(pc, patterns...)
	if err != nil {
		return nil, fmt.Errorf("%s: packages.Load: %v", name, err)
	}
	if len(pkgs) == 0 {
		return nil, fmt.Errorf("%s: zero packages loaded", name)
	}
	var errs []string
	packages.Visit(pkgs, nil, func(p *packages.Package) {
		for _, e := range p.Errors {
			errs = append(errs, fmt.Sprintf("%s: %s", p.PkgPath, e.Error()))
		}
	})
	if len(errs) > 0 {
		sort.Strings(errs)
		if len(errs) > 8 {
			errs = errs[:8]
		}
		return nil, fmt.Errorf("%s: load/type errors:\n  %s", name, strings.Join(errs, "\n  "))
	}
	sort.Slice(pkgs, func(i, j int) bool { return pkgs[i].PkgPath < pkgs[j].PkgPath })
	b.Pkgs = pkgs
	prog, spkgs := ssautil.Packages(pkgs, ssa.BuilderMode(0))
	prog.Build()
	b.Prog = prog
	b.Fset = prog.Fset
	for i, sp := range spkgs {
		if sp == nil {
			return nil, fmt.Errorf("%s: no SSA for %s", name, pkgs[i].PkgPath)
		}
		path := sp.Pkg.Path()
		switch {
		case strings.HasSuffix(path, "/internal/json"):
			b.Codec, b.CodecPkg = sp, pkgs[i]
		case strings.HasSuffix(path, "/cmd/json-patch"):
			b.Cmd, b.CmdPkg = sp, pkgs[i]
		case path == "github.com/evanphx/json-patch/v5" || path == "github.com/evanphx/json-patch":
			b.Lib, b.LibPkg = sp, pkgs[i]
		}
	}
	if b.Lib == nil {
		return nil, fmt.Errorf("%s: library package not found among %d packages", name, len(pkgs))
	}
	if b.Cmd == nil {
		return nil, fmt.Errorf("%s: command package not found", name)
	}
	if name == "v5" && b.Codec == nil {
		return nil, fmt.Errorf("v5: codec package not found")
	}
	return b, nil
}

// ---- small helpers over a body --------------------------------------------

func (b *Body) rel(p token.Pos) string {
	if !p.IsValid() {
		return "?"
	}
	pp := b.Fset.Position(p)
	f := pp.Filename
	if r, err := filepath.Rel(b.Repo, f); err == nil && !strings.HasPrefix(r, "..") {
		f = r
	}
	return fmt.Sprintf("%s:%d", f, pp.Line)
}

func (b *Body) posOf(i ssa.Instruction) string {
	if i == nil {
		return "?"
	}
	p := i.Pos()
	if !p.IsValid() {
		// fall back to any positioned instruction in the block, then the function
		for _, x := range i.Block().Instrs {
			if x.Pos().IsValid() {
				p = x.Pos()
				break
			}
		}
		if !p.IsValid() {
			p = i.Parent().Pos()
		}
	}
	return b.rel(p)
}

// fn returns a package-level function of pkg by name, or nil.
func fnOf(pkg *ssa.Package, name string) *ssa.Function {
	if pkg == nil {
		return nil
	}
	return pkg.Func(name)
}

// method returns method name of named type recv (value or pointer receiver).
func (b *Body) method(pkg *ssa.Package, recv, name string) *ssa.Function {
	if pkg == nil {
		return nil
	}
	t := pkg.Type(recv)
	if t == nil {
		return nil
	}
	for _, typ := range []types.Type{t.Type(), types.NewPointer(t.Type())} {
		ms := b.Prog.MethodSets.MethodSet(typ)
		for i := 0; i < ms.Len(); i++ {
			if ms.At(i).Obj().Name() == name {
				return b.Prog.MethodValue(ms.At(i))
			}
		}
	}
	return nil
}

// srcFuncs lists every function with a body that belongs to pkg (package
// functions, methods, anonymous functions), sorted by position.
func (b *Body) srcFuncs(pkgs ...*ssa.Package) []*ssa.Function {
	want := map[*ssa.Package]bool{}
	for _, p := range pkgs {
		if p != nil {
			want[p] = true
		}
	}
	var out []*ssa.Function
	seen := map[*ssa.Function]bool{}
	var add func(f *ssa.Function)
	add = func(f *ssa.Function) {
		if f == nil || seen[f] {
			return
		}
		seen[f] = true
		if f.Blocks != nil && f.Synthetic == "" {
			out = append(out, f)
		} else if f.Blocks != nil && f.Name() == "init" {
			out = append(out, f)
		}
		for _, a := range f.AnonFuncs {
			add(a)
		}
	}
	for fn := range ssautil.AllFunctions(b.Prog) {
		if fn.Pkg != nil && want[fn.Pkg] {
			add(fn)
		}
	}
	sort.Slice(out, func(i, j int) bool {
		if out[i].Pos() != out[j].Pos() {
			return out[i].Pos() < out[j].Pos()
		}
		return out[i].String() < out[j].String()
	})
	return out
}

// fname is the short, role-stable name of a function: pkg-relative, with
// receiver, e.g. "(*partialArray).get" or "Patch.copy" or "findObject".
func fname(f *ssa.Function) string {
	if f == nil {
		return "<nil>"
	}
	if f.Pkg != nil {
		return f.RelString(f.Pkg.Pkg)
	}
	return f.String()
}

// qname prefixes fname with the body-level package label.
func (b *Body) qname(f *ssa.Function) string {
	if f == nil {
		return "<nil>"
	}
	lab := "?"
	switch f.Pkg {
	case b.Lib:
		lab = b.Name
	case b.Codec:
		lab = "codec"
	case b.Cmd:
		lab = b.Name + "/cmd"
	default:
		if f.Pkg != nil {
			lab = f.Pkg.Pkg.Path()
		} else if f.Parent() != nil {
			return b.qname(f.Parent()) + "$" + f.Name()
		}
	}
	return lab + "." + fname(f)
}

func (b *Body) inRepo(f *ssa.Function) bool {
	for f != nil && f.Pkg == nil && f.Parent() != nil {
		f = f.Parent()
	}
	return f != nil && f.Pkg != nil && (f.Pkg == b.Lib || f.Pkg == b.Codec || f.Pkg == b.Cmd)
}
