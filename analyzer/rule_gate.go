package main

// R-GATE — a validity gate dominates every validity-assuming parse (v5).
// R-MERGEWIRE — MergePatch / MergeMergePatches wire the mode flag and the
// parameter order into doMergePatch.

import (
	"fmt"
	"go/token"
	"go/types"
	"sort"
	"strings"

	"golang.org/x/tools/go/ssa"
)

func init() {
	register(&Rule{ID: "R-GATE", Doc: "every exported []byte parameter of the v5 library reaches a validity-assuming codec parse (computed sinks: exported codec functions that run the decoder without a dominating successful checkValid) only behind a dominating json.Valid gate on that parameter whose invalid edge leaves the function with an error / false",
		Run: ruleGate, Min: map[string]int{"v5": 13, "codec": 2}})
	register(&Rule{ID: "R-MERGEWIRE", Doc: "MergePatch passes constant false and MergeMergePatches constant true as doMergePatch's mode flag, both pass their two parameters in order",
		Run: ruleMergeWire, Min: map[string]int{"v5": 2, "legacy": 2}})
}

func isByteSlice(t types.Type) bool {
	s, ok := t.Underlying().(*types.Slice)
	if !ok {
		return false
	}
	b, ok := s.Elem().Underlying().(*types.Basic)
	return ok && b.Kind() == types.Byte
}

// exportedAPI lists exported package functions and exported methods of
// exported named types of pkg.
func (b *Body) exportedAPI(pkg *ssa.Package) []*ssa.Function {
	var out []*ssa.Function
	for _, fn := range b.srcFuncs(pkg) {
		if fn.Parent() != nil || !token.IsExported(fn.Name()) {
			continue
		}
		if recv := fn.Signature.Recv(); recv != nil {
			if n := derefNamed(recv.Type()); n == nil || !n.Obj().Exported() {
				continue
			}
		}
		out = append(out, fn)
	}
	return out
}

type gateInfo struct {
	call *ssa.Call
	blk  *ssa.BasicBlock
	succ int // index of the successor taken when the input is valid
}

// validGates finds calls of the codec's Valid on value p (or a trivial
// conversion of it) whose result directly controls a branch.
func (b *Body) validGates(fn *ssa.Function, p ssa.Value) []gateInfo {
	var out []gateInfo
	validFn := fnOf(b.Codec, "Valid")
	for _, bb := range fn.Blocks {
		for _, ins := range bb.Instrs {
			c, ok := ins.(*ssa.Call)
			if !ok || validFn == nil || c.Call.StaticCallee() != validFn || len(c.Call.Args) != 1 {
				continue
			}
			if unwrapConv(c.Call.Args[0]) != p {
				continue
			}
			// the result must be the condition of the If that ends a block it dominates
			for _, ub := range fn.Blocks {
				iff, ok := ub.Instrs[len(ub.Instrs)-1].(*ssa.If)
				if !ok {
					continue
				}
				cond, neg := stripNot(iff.Cond)
				if cond != ssa.Value(c) {
					continue
				}
				succ := 0
				if neg {
					succ = 1
				}
				out = append(out, gateInfo{c, ub, succ})
			}
		}
	}
	// a library helper that validates the text it is given: the success edge of the test of
	// its error is a gate for the argument
	for _, bb := range fn.Blocks {
		for _, ins := range bb.Instrs {
			c, ok := ins.(*ssa.Call)
			if !ok {
				continue
			}
			h := c.Call.StaticCallee()
			if h == nil || h.Pkg != b.Lib || len(h.Blocks) == 0 || h == fn {
				continue
			}
			for i, a := range c.Call.Args {
				if unwrapConv(a) != p || i >= len(h.Params) || !b.helperValidates(h, i) {
					continue
				}
				for _, t := range errTestsOf(fn, c) {
					out = append(out, gateInfo{c, t.Blk, 1 - t.NonNilSucc})
				}
			}
		}
	}
	return out
}

// helperValidates: every return of h that can carry a nil error lies behind the valid edge of
// a json.Valid gate on parameter i (so a nil error from h means the text is well-formed).
func (b *Body) helperValidates(h *ssa.Function, i int) bool {
	type hk struct {
		f *ssa.Function
		i int
	}
	if b.helperValMemo == nil {
		b.helperValMemo = map[interface{}]int{}
	}
	k := hk{h, i}
	switch b.helperValMemo[k] {
	case 1:
		return true
	case 2, 3:
		return false // 3: in progress (recursion)
	}
	b.helperValMemo[k] = 3
	ok := false
	ei := errResultIndex(h)
	if ei >= 0 && isByteSlice(h.Params[i].Type()) {
		gates := b.validGates(h, h.Params[i])
		if len(gates) > 0 {
			ok = true
			for _, r := range liveReturns(h) {
				if b.definitelyNonNilErr(retVal(r, ei), r.Block(), 0) {
					continue
				}
				dom := false
				for _, g := range gates {
					if edgeDominates(g.blk, g.succ, r.Block()) {
						dom = true
					}
				}
				if !dom {
					ok = false
				}
			}
		}
	}
	if ok {
		b.helperValMemo[k] = 1
	} else {
		b.helperValMemo[k] = 2
	}
	return ok
}

// codecSinks computes the validity-assuming entry points of the codec: exported
// functions that hand a []byte parameter to (*decodeState).init without a
// dominating successful checkValid of the same parameter.
func (b *Body) codecSinks(l *Ledger) map[*ssa.Function]int {
	sinks := map[*ssa.Function]int{}
	initM := b.method(b.Codec, "decodeState", "init")
	checkValid := fnOf(b.Codec, "checkValid")
	if initM == nil || checkValid == nil {
		l.add("R-GATE", "codec", "anchors", "", Undecided, "codec anchors (*decodeState).init / checkValid do not resolve", false)
		return sinks
	}
	for _, fn := range b.exportedAPI(b.Codec) {
		for pi, p := range fn.Params {
			if !isByteSlice(p.Type()) {
				continue
			}
			for _, ci := range b.initSites(fn, p) {
				// gated?
				gated := false
				for _, vc := range callsTo(fn, func(c *ssa.CallCommon) bool { return c.StaticCallee() == checkValid }) {
					vcall, ok := vc.(*ssa.Call)
					if !ok || len(vcall.Call.Args) < 1 || unwrapConv(vcall.Call.Args[0]) != ssa.Value(p) {
						continue
					}
					// an If on (err != nil) / (err == nil) whose "nil" edge dominates the init call
					for _, bb := range fn.Blocks {
						iff, ok := bb.Instrs[len(bb.Instrs)-1].(*ssa.If)
						if !ok {
							continue
						}
						cond, neg := stripNot(iff.Cond)
						bo, ok := cond.(*ssa.BinOp)
						if !ok || (bo.Op != token.NEQ && bo.Op != token.EQL) {
							continue
						}
						var other ssa.Value
						if bo.X == ssa.Value(vcall) {
							other = bo.Y
						} else if bo.Y == ssa.Value(vcall) {
							other = bo.X
						} else {
							continue
						}
						if !isNilConst(other) {
							continue
						}
						nilSucc := 1 // err != nil : false edge means nil
						if bo.Op == token.EQL {
							nilSucc = 0
						}
						if neg {
							nilSucc = 1 - nilSucc
						}
						if edgeDominates(bb, nilSucc, ci.Block()) {
							gated = true
						}
					}
				}
				if !gated {
					sinks[fn] = pi
				}
			}
		}
	}
	return sinks
}

func ruleGate(c *Ctx) {
	b := c.V5
	if b == nil {
		return
	}
	l := c.L
	b.resolverAndMergeRefusals(l, "R-GATE")
	b.hooksSucceedBehindDecoder(l)
	b.decodeRefusals(l, "R-GATE", []*ssa.Function{b.method(b.Lib, "lazyNode", "UnmarshalJSON"), b.method(b.Lib, "partialDoc", "UnmarshalJSON"), b.method(b.Lib, "partialArray", "UnmarshalJSON")})
	sinks := b.codecSinks(l)
	var sinkNames []string
	for f := range sinks {
		sinkNames = append(sinkNames, f.Name())
	}
	sort.Strings(sinkNames)
	for f, pi := range sinks {
		l.add("R-GATE", "codec", "sink "+fname(f)+" param "+f.Params[pi].Name(), b.rel(f.Pos()), Discharged,
			"validity-assuming parse: runs (*decodeState).init/unmarshal on this parameter with no dominating successful checkValid; treated as a sink that needs a caller-side gate", true)
	}
	l.stat("R-GATE").Extra["sinks"] = sinkNames

	// summaries: for each library function, the set of parameter indices from
	// which data can reach a sink with no dominating gate inside the function.
	libFuncs := b.srcFuncs(b.Lib)
	sinkPs := map[*ssa.Function]map[int]bool{}
	type witness struct{ site, callee string }
	wit := map[*ssa.Function]map[int]witness{}
	gatedSites := map[*ssa.Function]map[int]int{}
	reaches := func(callee *ssa.Function, i int) bool {
		if pi, ok := sinks[callee]; ok && pi == i {
			return true
		}
		return sinkPs[callee][i]
	}
	for changed := true; changed; {
		changed = false
		for _, fn := range libFuncs {
			for pi, p := range fn.Params {
				if !canCarryData(p.Type()) {
					continue
				}
				if sinkPs[fn][pi] {
					continue
				}
				t := taintClosure(fn, []ssa.Value{p}, &taintOpts{callResult: func(ci ssa.CallInstruction, _ []int) bool {
					if f := ci.Common().StaticCallee(); f != nil && f == fnOf(b.Codec, "Valid") {
						return false
					}
					return canCarryData(ci.Value().Type())
				}})
				gates := b.validGates(fn, p)
				ngated := 0
				for _, bb := range fn.Blocks {
					for _, ins := range bb.Instrs {
						ci, ok := ins.(ssa.CallInstruction)
						if !ok {
							continue
						}
						com := ci.Common()
						args := callArgs(com)
						for _, callee := range b.callees(com) {
							for i, a := range args {
								if !t[a] || !reaches(callee, i) {
									continue
								}
								gated := false
								for _, g := range gates {
									if edgeDominates(g.blk, g.succ, bb) {
										gated = true
									}
								}
								if gated {
									ngated++
									continue
								}
								if sinkPs[fn] == nil {
									sinkPs[fn] = map[int]bool{}
									wit[fn] = map[int]witness{}
								}
								if !sinkPs[fn][pi] {
									sinkPs[fn][pi] = true
									wit[fn][pi] = witness{b.posOf(ins), fname(callee)}
									changed = true
								}
							}
						}
					}
				}
				if gatedSites[fn] == nil {
					gatedSites[fn] = map[int]int{}
				}
				gatedSites[fn][pi] = ngated
			}
		}
	}

	// chain reconstruction for witnesses
	var chain func(fn *ssa.Function, pi int, depth int) string
	chain = func(fn *ssa.Function, pi int, depth int) string {
		w, ok := wit[fn][pi]
		if !ok || depth > 8 {
			return ""
		}
		s := fmt.Sprintf("%s(%s) -> %s at %s", fname(fn), fn.Params[pi].Name(), w.callee, w.site)
		return s
	}

	// obligations: exported []byte parameters
	for _, fn := range b.exportedAPI(b.Lib) {
		for pi, p := range fn.Params {
			if !isByteSlice(p.Type()) {
				continue
			}
			if recv := fn.Signature.Recv(); recv != nil && pi == 0 {
				continue
			}
			key := fmt.Sprintf("%s param %s -> validity-assuming parse", fname(fn), p.Name())
			if sinkPs[fn][pi] {
				// build call chain
				var parts []string
				cur, cpi := fn, pi
				for d := 0; d < 8; d++ {
					s := chain(cur, cpi, d)
					if s == "" {
						break
					}
					parts = append(parts, s)
					// follow into callee
					w := wit[cur][cpi]
					var next *ssa.Function
					for _, f2 := range libFuncs {
						if fname(f2) == w.callee {
							next = f2
						}
					}
					if next == nil {
						break
					}
					// pick any sink param of next
					found := false
					var idxs []int
					for k := range sinkPs[next] {
						idxs = append(idxs, k)
					}
					sort.Ints(idxs)
					for _, k := range idxs {
						cur, cpi, found = next, k, true
						break
					}
					if !found {
						break
					}
				}
				l.add("R-GATE", "v5", key, b.rel(fn.Pos()), Violated,
					"caller-supplied bytes reach a parse that assumes validity (it panics on ill-formed input) with no dominating json.Valid gate: "+strings.Join(parts, " ; "), true)
				continue
			}
			gates := b.validGates(fn, p)
			n := gatedSites[fn][pi]
			if len(gates) > 0 && n > 0 {
				// invalid edge must leave the function with an error/false and no parse
				ok, why := b.invalidEdgeLeaves(fn, gates)
				if !ok {
					l.add("R-GATE", "v5", key, b.posOf(gates[0].call), Violated, "gate present but its invalid edge does not return an error/false: "+why, true)
					continue
				}
				l.add("R-GATE", "v5", key, b.posOf(gates[0].call), Discharged,
					fmt.Sprintf("json.Valid(%s) valid-edge dominates all %d sink-reaching call site(s); invalid edge returns %s", p.Name(), n, why), true)
			} else {
				// no direct sink from this function: wrappers whose callee is gated
				l.add("R-GATE", "v5", key, b.rel(fn.Pos()), Discharged,
					"parameter is only passed to functions whose own summary shows no ungated route to a validity-assuming parse (gate lives in the callee)", true)
			}
		}
	}
	// accepting returns: in every function that owns a gate on a []byte parameter, a return
	// that can report success (nil error / a bool other than the constant false) is
	// dominated by the valid edge of a gate on that parameter — ill-formed input is
	// never accepted through a side door in front of the gate
	for _, fn := range libFuncs {
		for pi, p := range fn.Params {
			if !isByteSlice(p.Type()) {
				continue
			}
			gates := b.validGates(fn, p)
			if len(gates) == 0 {
				continue
			}
			_ = pi
			res := fn.Signature.Results()
			for _, r := range liveReturns(fn) {
				accepting := false
				last := retVal(r, res.Len()-1)
				switch {
				case isErrorType(res.At(res.Len() - 1).Type()):
					accepting = !b.definitelyNonNilErr(last, r.Block(), 0)
				default:
					if bt, ok := res.At(res.Len() - 1).Type().Underlying().(*types.Basic); ok && bt.Kind() == types.Bool {
						if k, isK := boolConst(last); !isK || k {
							accepting = true
						}
					} else {
						accepting = true
					}
				}
				if !accepting {
					continue
				}
				var conds []string
				for _, e := range b.controlDeps(r.Block()) {
					if iff, ok := e.From.Instrs[len(e.From.Instrs)-1].(*ssa.If); ok {
						d := describeCond(iff.Cond)
						if e.Succ == 1 {
							d = "!(" + d + ")"
						}
						conds = append(conds, d)
					}
				}
				sort.Strings(conds)
				key := fmt.Sprintf("%s: accepting return under [%s] lies behind json.Valid(%s)", fname(fn), strings.Join(conds, "; "), p.Name())
				dom := false
				for _, g := range gates {
					if edgeDominates(g.blk, g.succ, r.Block()) {
						dom = true
					}
				}
				if dom {
					l.add("R-GATE", "v5", key, b.posOf(r), Discharged, "dominated by the valid edge of the gate", true)
				} else {
					l.add("R-GATE", "v5", key, b.posOf(r), Violated, "this return can report success without "+p.Name()+" having passed json.Valid: an ill-formed text is accepted (no error / true) instead of rejected", true)
				}
			}
		}
	}

	// whole-text validation: an exported function that takes a JSON text reports success only
	// for a text that was validated as a whole — by a gate of its own (obligations above), or by a
	// callee that owns one (or by a codec entry point that runs checkValid over the whole
	// parameter) whose success every accepting return depends on. A streaming decoder stops
	// after the first value, so trailing garbage would be accepted.
	{
		initM := b.method(b.Codec, "decodeState", "init")
		validatingCodec := map[*ssa.Function]int{}
		if vf := fnOf(b.Codec, "Valid"); vf != nil {
			validatingCodec[vf] = 0
		}
		for _, fn := range b.exportedAPI(b.Codec) {
			for pi, p := range fn.Params {
				if !isByteSlice(p.Type()) || initM == nil {
					continue
				}
				if _, isSink := sinks[fn]; isSink {
					continue
				}
				for _, ci := range callsTo(fn, func(c *ssa.CallCommon) bool { return c.StaticCallee() == initM }) {
					if args := ci.Common().Args; len(args) >= 2 && unwrapConv(args[1]) == ssa.Value(p) {
						validatingCodec[fn] = pi
					}
				}
			}
		}
		validates := map[*ssa.Function]map[int]string{}
		set := func(f *ssa.Function, i int, why string) bool {
			if validates[f] == nil {
				validates[f] = map[int]string{}
			}
			if _, ok := validates[f][i]; ok {
				return false
			}
			validates[f][i] = why
			return true
		}
		for _, fn := range libFuncs {
			for pi, p := range fn.Params {
				if isByteSlice(p.Type()) && len(b.validGates(fn, p)) > 0 {
					set(fn, pi, "own gate")
				}
			}
		}
		accepting := func(fn *ssa.Function) []*ssa.Return {
			var out []*ssa.Return
			res := fn.Signature.Results()
			for _, r := range liveReturns(fn) {
				if res.Len() == 0 {
					continue
				}
				last := retVal(r, res.Len()-1)
				if isErrorType(res.At(res.Len() - 1).Type()) {
					if b.definitelyNonNilErr(last, r.Block(), 0) {
						continue
					}
				} else if bt, ok := res.At(res.Len() - 1).Type().Underlying().(*types.Basic); ok && bt.Kind() == types.Bool {
					if k, isK := boolConst(last); isK && !k {
						continue
					}
				}
				out = append(out, r)
			}
			return out
		}
		delegates := func(r *ssa.Return, call *ssa.Call) bool {
			for _, v := range r.Results {
				if v == ssa.Value(call) {
					return true
				}
				if ex, ok := v.(*ssa.Extract); ok && ex.Tuple == ssa.Value(call) {
					return true
				}
			}
			return false
		}
		for changed := true; changed; {
			changed = false
			for _, fn := range libFuncs {
				for pi, p := range fn.Params {
					if !isByteSlice(p.Type()) {
						continue
					}
					if _, done := validates[fn][pi]; done {
						continue
					}
					allInstrs(fn, func(i ssa.Instruction) {
						call, ok := i.(*ssa.Call)
						if !ok {
							return
						}
						g := call.Call.StaticCallee()
						if g == nil {
							return
						}
						for ai, a := range call.Call.Args {
							if unwrapConv(a) != ssa.Value(p) {
								continue
							}
							okCallee := false
							if _, ok := validates[g][ai]; ok {
								okCallee = true
							}
							if j, ok := validatingCodec[g]; ok && j == ai {
								okCallee = true
							}
							if !okCallee {
								continue
							}
							all := true
							for _, r := range accepting(fn) {
								if delegates(r, call) {
									continue
								}
								if ok, _ := b.successDominates(call, r); ok {
									continue
								}
								all = false
							}
							if all && set(fn, pi, "every accepting return depends on the success of "+fname(g)+" at "+b.posOf(call)) {
								changed = true
							}
						}
					})
				}
			}
		}
		for _, fn := range b.exportedAPI(b.Lib) {
			for pi, p := range fn.Params {
				if !isByteSlice(p.Type()) {
					continue
				}
				if recv := fn.Signature.Recv(); recv != nil && pi == 0 {
					continue
				}
				if len(b.validGates(fn, p)) > 0 {
					continue // decided by the accepting-return obligations of the gate's owner
				}
				key := fmt.Sprintf("%s param %s: success is reported only for a text validated as a whole", fname(fn), p.Name())
				if why, ok := validates[fn][pi]; ok {
					l.add("R-GATE", "v5", key, b.rel(fn.Pos()), Discharged, why, true)
				} else if len(accepting(fn)) == 0 {
					l.add("R-GATE", "v5", key, b.rel(fn.Pos()), Discharged, "the function never reports success", false)
				} else {
					l.add("R-GATE", "v5", key, b.rel(fn.Pos()), Violated, "no json.Valid gate on "+p.Name()+" here, and no accepting return depends on a callee that validates the whole text: a decoder that stops after the first value (or none at all) lets a text with trailing bytes through", true)
				}
			}
		}
	}

	// text the library produces itself and keeps for a later validity-assuming parse: the
	// encoder's output is well-formed, but it can nest deeper than the scanner accepts
	// (a value of admissible depth inserted deep inside a document of admissible depth), and
	// the validity-assuming decoder runs off the end of such a text. Encoder output that
	// becomes the text of a node therefore has to pass the gate like any other text.
	for _, fn := range libFuncs {
		n := 0
		allInstrs(fn, func(i ssa.Instruction) {
			call, ok := i.(*ssa.Call)
			if !ok {
				return
			}
			f := call.Call.StaticCallee()
			if f == nil || f.Pkg != b.Codec || !strings.HasPrefix(f.Name(), "Marshal") {
				return
			}
			res := f.Signature.Results()
			if res.Len() == 0 || !isByteSlice(res.At(0).Type()) {
				return
			}
			var seed ssa.Value = call
			if res.Len() > 1 {
				seed = nil
				for _, r := range *call.Referrers() {
					if ex, ok := r.(*ssa.Extract); ok && ex.Index == 0 {
						seed = ex
					}
				}
				if seed == nil {
					return
				}
			}
			t := taintClosure(fn, []ssa.Value{seed}, nil)
			gates := b.validGates(fn, seed)
			allInstrs(fn, func(j ssa.Instruction) {
				kept := ""
				switch y := j.(type) {
				case *ssa.Store:
					if fa, ok := y.Addr.(*ssa.FieldAddr); ok && t[y.Val] && fieldName(fa.X.Type(), fa.Field) == "raw" {
						kept = "stored as a node's raw text"
					}
				case *ssa.Call:
					g := y.Call.StaticCallee()
					if g == nil || g.Pkg != b.Lib || y == call {
						return
					}
					hit := false
					for _, a := range y.Call.Args {
						if t[a] && (isByteSlice(a.Type()) || isPtrToNamed(a.Type(), "RawMessage")) {
							hit = true
						}
					}
					if hit && g.Signature.Results().Len() == 1 && isPtrToNamed(g.Signature.Results().At(0).Type(), "lazyNode") {
						kept = "made the text of a node by " + fname(g)
					}
				}
				if kept == "" {
					return
				}
				n++
				key := fmt.Sprintf("%s: encoder output #%d that becomes a node's text passes json.Valid first", b.canonFname(fn), n)
				dom := false
				for _, g := range gates {
					if edgeDominates(g.blk, g.succ, j.Block()) {
						dom = true
					}
				}
				if dom {
					l.add("R-GATE", "v5", key, b.posOf(j), Discharged, "the output of "+fname(f)+" is "+kept+" only on the valid edge of json.Valid applied to it", true)
				} else {
					l.add("R-GATE", "v5", key, b.posOf(j), Violated, "the output of "+fname(f)+" is "+kept+" without passing json.Valid: the encoder can emit a text nested deeper than the scanner accepts (a value inserted deep inside a deep document), and a later descent into the node hands it to the validity-assuming decoder, which runs off the end of the text (index out of range)", true)
				}
			})
		})
	}

	// gates census
	ng := 0
	for _, fn := range libFuncs {
		for _, p := range fn.Params {
			ng += len(b.validGates(fn, p))
		}
	}
	l.stat("R-GATE").Extra["gate_branches"] = ng
	var internal []string
	for fn, ps := range sinkPs {
		for pi := range ps {
			internal = append(internal, fmt.Sprintf("%s(%s)", fname(fn), fn.Params[pi].Name()))
		}
	}
	sort.Strings(internal)
	l.stat("R-GATE").Extra["functions_assuming_valid_input"] = internal
}

// invalidEdgeLeaves checks that the invalid-input edge of each gate reaches
// only returns whose error result is non-nil (or whose sole bool result is
// constant false), without passing a call into the repo.
func (b *Body) invalidEdgeLeaves(fn *ssa.Function, gates []gateInfo) (bool, string) {
	desc := ""
	for _, g := range gates {
		start := g.blk.Succs[1-g.succ]
		seen := map[*ssa.BasicBlock]bool{}
		work := []*ssa.BasicBlock{start}
		for len(work) > 0 {
			bb := work[len(work)-1]
			work = work[:len(work)-1]
			if seen[bb] {
				continue
			}
			seen[bb] = true
			// the invalid edge may join the second half of an || chain: a
			// block that itself is a gate block is fine to pass
			for _, ins := range bb.Instrs {
				if ci, ok := ins.(ssa.CallInstruction); ok {
					f := ci.Common().StaticCallee()
					if f != nil && b.inRepo(f) && f != fnOf(b.Codec, "Valid") {
						return false, fmt.Sprintf("invalid edge reaches call to %s at %s", fname(f), b.posOf(ins))
					}
				}
			}
			last := bb.Instrs[len(bb.Instrs)-1]
			if r, ok := last.(*ssa.Return); ok {
				res := r.Results
				if len(res) == 0 {
					return false, "return without result"
				}
				lastRes := res[len(res)-1]
				if isErrorType(lastRes.Type()) {
					if isNilConst(lastRes) {
						return false, "returns nil error on invalid input at " + b.posOf(r)
					}
					for _, x := range res[:len(res)-1] {
						if bv, isB := boolConst(x); isB && !bv {
							continue // false is the zero answer of a verdict
						}
						if !isNilConst(x) {
							return false, "returns a non-nil value with the error at " + b.posOf(r)
						}
					}
					desc = "(nil, non-nil error)"
				} else if bv, ok := boolConst(lastRes); ok && len(res) == 1 {
					if bv {
						return false, "returns true on invalid input at " + b.posOf(r)
					}
					desc = "constant false"
				} else {
					return false, "unrecognised return shape at " + b.posOf(r)
				}
				continue
			}
			// a block that is the valid-edge target of a gate must not be entered
			for _, s := range bb.Succs {
				isValidSucc := false
				for _, g2 := range gates {
					if g2.blk == bb && g2.blk.Succs[g2.succ] == s {
						isValidSucc = true
					}
				}
				if isValidSucc {
					continue
				}
				isGateBlk := false
				for _, g2 := range gates {
					if g2.blk == bb {
						isGateBlk = true
					}
				}
				_ = isGateBlk
				work = append(work, s)
			}
		}
	}
	return true, desc
}

func ruleMergeWire(c *Ctx) {
	for _, b := range c.bodies() {
		do := b.roleFn("doMergePatch")
		if do == nil {
			c.L.add("R-MERGEWIRE", b.Name, "anchor doMergePatch", "", Undecided, "doMergePatch does not resolve", false)
			continue
		}
		for _, w := range []struct {
			name string
			want bool
		}{{"MergePatch", false}, {"MergeMergePatches", true}} {
			fn := fnOf(b.Lib, w.name)
			key := w.name + " -> doMergePatch wiring"
			if fn == nil {
				c.L.add("R-MERGEWIRE", b.Name, key, "", Undecided, w.name+" does not resolve", false)
				continue
			}
			calls := callsTo(fn, func(cc *ssa.CallCommon) bool { return cc.StaticCallee() == do })
			if len(calls) != 1 || len(fn.Params) != 2 {
				c.L.add("R-MERGEWIRE", b.Name, key, b.rel(fn.Pos()), Violated, fmt.Sprintf("expected exactly one call of doMergePatch, found %d", len(calls)), true)
				continue
			}
			args := calls[0].Common().Args
			flag, isConst := boolConst(args[2])
			var probs []string
			if args[0] != ssa.Value(fn.Params[0]) || args[1] != ssa.Value(fn.Params[1]) {
				probs = append(probs, "parameters are not passed in order (first, second)")
			}
			if !isConst || flag != w.want {
				probs = append(probs, fmt.Sprintf("mode flag is not the constant %v", w.want))
			}
			// the result must be returned unchanged
			call, _ := calls[0].(*ssa.Call)
			for _, r := range returnsOf(fn) {
				for i, res := range r.Results {
					ex, ok := res.(*ssa.Extract)
					if !ok || ex.Tuple != ssa.Value(call) || ex.Index != i {
						probs = append(probs, "result of doMergePatch is not returned unchanged")
					}
				}
			}
			if len(probs) > 0 {
				c.L.add("R-MERGEWIRE", b.Name, key, b.posOf(calls[0]), Violated, strings.Join(probs, "; "), true)
			} else {
				c.L.add("R-MERGEWIRE", b.Name, key, b.posOf(calls[0]), Discharged, fmt.Sprintf("doMergePatch(%s, %s, %v) and its result tuple is returned as is", fn.Params[0].Name(), fn.Params[1].Name(), w.want), true)
			}
		}
	}
}

// describeCond renders a branch condition in a position-free, name-based form
// (used to key obligations by role).
func describeCond(v ssa.Value) string {
	switch x := v.(type) {
	case *ssa.BinOp:
		return describeCond(x.X) + " " + x.Op.String() + " " + describeCond(x.Y)
	case *ssa.UnOp:
		if x.Op == token.NOT {
			return "!" + describeCond(x.X)
		}
		if x.Op == token.MUL {
			if fa, ok := x.X.(*ssa.FieldAddr); ok {
				return describeCond(fa.X) + "." + fieldName(fa.X.Type(), fa.Field)
			}
			if g, ok := x.X.(*ssa.Global); ok {
				return g.Name()
			}
		}
		return "load"
	case *ssa.Call:
		if bi, ok := x.Call.Value.(*ssa.Builtin); ok {
			var as []string
			for _, a := range x.Call.Args {
				as = append(as, describeCond(a))
			}
			return bi.Name() + "(" + strings.Join(as, ", ") + ")"
		}
		var as []string
		for _, a := range x.Call.Args {
			as = append(as, describeCond(a))
		}
		return calleeLabel(&x.Call) + "(" + strings.Join(as, ", ") + ")"
	case *ssa.Parameter:
		return x.Name()
	case *ssa.Const:
		if x.Value == nil {
			return "nil"
		}
		return x.Value.String()
	case *ssa.Phi:
		return "compound(" + x.Comment + ")"
	case *ssa.Extract:
		return describeCond(x.Tuple) + "#" + fmt.Sprint(x.Index)
	case *ssa.Convert:
		return describeCond(x.X)
	case *ssa.ChangeType:
		return describeCond(x.X)
	}
	if al, ok := v.(*ssa.Alloc); ok && al.Comment != "" {
		return al.Comment
	}
	return "_"
}

// initReach: for every codec function, the parameters whose value becomes the input of
// (*decodeState).init — directly, or through codec helpers (decodeInto(data, v) { d.init(data) … }).
func (b *Body) initReach() map[*ssa.Function]map[int]bool {
	if b.initReachMemo != nil {
		return b.initReachMemo
	}
	out := map[*ssa.Function]map[int]bool{}
	initM := b.method(b.Codec, "decodeState", "init")
	if initM == nil {
		b.initReachMemo = out
		return out
	}
	out[initM] = map[int]bool{1: true}
	for changed := true; changed; {
		changed = false
		for _, fn := range b.srcFuncs(b.Codec) {
			for pi, p := range fn.Params {
				if out[fn][pi] || !isByteSlice(p.Type()) {
					continue
				}
				allInstrs(fn, func(i ssa.Instruction) {
					ci, ok := i.(ssa.CallInstruction)
					if !ok {
						return
					}
					g := ci.Common().StaticCallee()
					if g == nil || out[g] == nil {
						return
					}
					for ai, a := range ci.Common().Args {
						if out[g][ai] && unwrapConv(a) == ssa.Value(p) {
							if out[fn] == nil {
								out[fn] = map[int]bool{}
							}
							if !out[fn][pi] {
								out[fn][pi] = true
								changed = true
							}
						}
					}
				})
			}
		}
	}
	b.initReachMemo = out
	return out
}

// initSites: the calls in fn that hand value p on towards (*decodeState).init.
func (b *Body) initSites(fn *ssa.Function, p ssa.Value) []ssa.CallInstruction {
	reach := b.initReach()
	var out []ssa.CallInstruction
	allInstrs(fn, func(i ssa.Instruction) {
		ci, ok := i.(ssa.CallInstruction)
		if !ok {
			return
		}
		g := ci.Common().StaticCallee()
		if g == nil || reach[g] == nil {
			return
		}
		for ai, a := range ci.Common().Args {
			if reach[g][ai] && unwrapConv(a) == p {
				out = append(out, ci)
				return
			}
		}
	})
	return out
}
