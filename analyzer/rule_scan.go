package main

// R-SCAN: the language accepted by the embedded JSON scanner is decided
// completely — the scanner's transition relation is extracted from the SSA of
// its state functions with an exact byte-set abstract interpretation
// (A-BYTE), per stack context, and compared by product exploration with an
// RFC 8259 reference pushdown automaton written independently in this file.
// Nothing of /repo is executed.

import (
	"fmt"
	"go/constant"
	"go/token"
	"go/types"
	"sort"
	"strings"

	"golang.org/x/tools/go/ssa"
)

func init() {
	register(&Rule{ID: "R-SCAN", Doc: "the scanner accepts exactly RFC 8259 (ws value ws, nesting bound 10000): every state function reachable from reset's start state is evaluated abstractly for each of 7 stack contexts (depth 0/1/≥2 × top) into a total, deterministic map byte → (next state, stack action, error?); the product of that machine with an independent reference automaton is explored with synchronised stacks, and at every reachable product configuration both sides agree on accept/reject of each of the 256 bytes, on push/pop, and on acceptance at end of input (eof's trailing-space trick included); a transition is an error iff it returns scanError; the nesting test is `len <= 10000`",
		Run: ruleScan, Min: map[string]int{"codec": 100}})
	register(&Rule{ID: "R-DRIVER", Doc: "every driver of the scanner (checkValid, compact, Indent — found as the functions that call scan.step in a loop) ranges over its whole input in order, feeds every byte to step, stops with an error when step yields scanError, and accepts iff eof() does not yield scanError; eof has the shape err→error, endTop→end, step(' '), endTop→end, else error; Valid is checkValid == nil; Unmarshal/UnmarshalWithKeys return checkValid's error before touching the decoder",
		Run: ruleDriver, Min: map[string]int{"codec": 8}})
}

type bset [4]uint64

func (b *bset) add(c int)      { b[c>>6] |= 1 << (uint(c) & 63) }
func (b bset) has(c int) bool  { return b[c>>6]&(1<<(uint(c)&63)) != 0 }
func (b bset) and(o bset) bset { return bset{b[0] & o[0], b[1] & o[1], b[2] & o[2], b[3] & o[3]} }
func (b bset) or(o bset) bset  { return bset{b[0] | o[0], b[1] | o[1], b[2] | o[2], b[3] | o[3]} }
func (b bset) not() bset       { return bset{^b[0], ^b[1], ^b[2], ^b[3]} }
func (b bset) empty() bool     { return b == bset{} }
func (b bset) String() string {
	var parts []string
	f := func(c int) string {
		if c > 32 && c < 127 {
			return fmt.Sprintf("%c", rune(c))
		}
		return fmt.Sprintf("x%02x", c)
	}
	for i := 0; i < 256; {
		if !b.has(i) {
			i++
			continue
		}
		j := i
		for j+1 < 256 && b.has(j+1) {
			j++
		}
		if i == j {
			parts = append(parts, f(i))
		} else {
			parts = append(parts, f(i)+".."+f(j))
		}
		i = j + 1
	}
	return "{" + strings.Join(parts, " ") + "}"
}

type scKind int

const (
	kUnknown scKind = iota
	kByte
	kConst
	kBool
	kPred
	kAbsInt // n exact if !ge ; else ">= n"
	kFunc
	kScanner
	kStack    // value of s.parseState (tag: "", "append", "pop", "clear")
	kFieldPtr // &s.field
	kTopPtr
	kArr1 // varargs array holding one const
	kArr1Ptr
	kTblElem // &table[byte] of a constant package-level bool table: set = the bytes whose entry is true
)

type scVal struct {
	tbl   *[256]int64 // kByte with arithmetic applied: value as a function of the input byte (nil = identity)
	k     scKind
	n     int64
	ge    bool
	b     bool
	set   bset
	fn    *ssa.Function
	field string
	tag   string
	lenM1 bool
}

type scCtx struct {
	depth int // 0,1,2 (2 means >=2)
	top   int
}

type scEffect struct {
	op string
	fn string
	n  int
}

func (e scEffect) String() string {
	switch e.op {
	case "step":
		return "step=" + e.fn
	case "push", "settop":
		return fmt.Sprintf("%s(%d)", e.op, e.n)
	}
	return e.op
}

type scOutcome struct {
	set  bset
	effs []scEffect
	ret  scVal
	cx   scCtx
	over bool
}

type scFrame struct {
	fn     *ssa.Function
	env    map[ssa.Value]scVal
	cx     scCtx
	effs   []scEffect
	over   bool
	popd   bool
	pushed bool
}

func (fr *scFrame) clone() *scFrame {
	n := *fr
	n.env = make(map[ssa.Value]scVal, len(fr.env))
	for k, v := range fr.env {
		n.env[k] = v
	}
	n.effs = append([]scEffect(nil), fr.effs...)
	return &n
}

type scEval struct {
	scannerT    *types.Struct
	depthBounds []int64
	tables      map[*ssa.Global]*[256]bool // constant bool tables of the codec (byte classes spelled as look-ups)
}

func (e *scEval) val(fr *scFrame, v ssa.Value) scVal {
	if a, ok := fr.env[v]; ok {
		return a
	}
	switch v := v.(type) {
	case *ssa.Const:
		if v.Value != nil {
			switch v.Value.Kind() {
			case constant.Int:
				n, _ := constant.Int64Val(v.Value)
				return scVal{k: kConst, n: n}
			case constant.Bool:
				return scVal{k: kBool, b: constant.BoolVal(v.Value)}
			}
		}
	case *ssa.Function:
		return scVal{k: kFunc, fn: v}
	}
	return scVal{k: kUnknown, tag: v.Name()}
}

func scCmpSet(op token.Token, k int64, byteLeft bool) bset {
	var s bset
	for c := 0; c < 256; c++ {
		l, r := int64(c), k
		if !byteLeft {
			l, r = k, int64(c)
		}
		var t bool
		switch op {
		case token.EQL:
			t = l == r
		case token.NEQ:
			t = l != r
		case token.LSS:
			t = l < r
		case token.LEQ:
			t = l <= r
		case token.GTR:
			t = l > r
		case token.GEQ:
			t = l >= r
		default:
			panic("cmp op " + op.String())
		}
		if t {
			s.add(c)
		}
	}
	return s
}

func (e *scEval) call(fn *ssa.Function, args []scVal, cset bset, cx scCtx, over bool, depth int) []scOutcome {
	if depth > 6 {
		panic("inline depth exceeded at " + fn.Name())
	}
	fr := &scFrame{fn: fn, env: map[ssa.Value]scVal{}, cx: cx, over: over}
	for i, p := range fn.Params {
		fr.env[p] = args[i]
	}
	return e.run(fr, fn.Blocks[0], 0, nil, cset, depth)
}

func (e *scEval) run(fr *scFrame, b *ssa.BasicBlock, idx int, pred *ssa.BasicBlock, cset bset, depth int) []scOutcome {
	for i := idx; i < len(b.Instrs); i++ {
		switch ins := b.Instrs[i].(type) {
		case *ssa.DebugRef, *ssa.MakeInterface, *ssa.ChangeInterface:
		case *ssa.Alloc:
			if at, ok := ins.Type().(*types.Pointer).Elem().Underlying().(*types.Array); ok && at.Len() == 1 {
				fr.env[ins] = scVal{k: kArr1Ptr}
			}
		case *ssa.Phi:
			for j, p := range b.Preds {
				if p == pred {
					fr.env[ins] = e.val(fr, ins.Edges[j])
				}
			}
		case *ssa.FieldAddr:
			if e.val(fr, ins.X).k == kScanner {
				fr.env[ins] = scVal{k: kFieldPtr, field: fieldName(ins.X.Type(), ins.Field)}
			}
		case *ssa.IndexAddr:
			x, ix := e.val(fr, ins.X), e.val(fr, ins.Index)
			if g, isG := ins.X.(*ssa.Global); isG && ix.k == kByte {
				if t, ok := e.tables[g]; ok {
					var set bset
					for c := 0; c < 256; c++ {
						k := int64(c)
						if ix.tbl != nil {
							k = ix.tbl[c]
						}
						if k >= 0 && k < 256 && t[k] {
							set.add(c)
						}
					}
					fr.env[ins] = scVal{k: kTblElem, set: set}
					continue
				}
			}
			switch {
			case x.k == kStack && ix.lenM1:
				if fr.popd {
					panic("stack read after pop")
				}
				fr.env[ins] = scVal{k: kTopPtr}
			case x.k == kArr1Ptr:
				fr.env[ins] = scVal{k: kArr1Ptr, tag: "elem"}
			case x.k == kStack:
				panic("stack indexed by non len-1 in " + fr.fn.Name())
			}
		case *ssa.Slice:
			x := e.val(fr, ins.X)
			switch x.k {
			case kArr1Ptr:
				fr.env[ins] = scVal{k: kArr1, n: x.n}
			case kStack:
				var hi scVal
				if ins.High != nil {
					hi = e.val(fr, ins.High)
				}
				if hi.lenM1 {
					fr.env[ins] = scVal{k: kStack, tag: "pop"}
				} else if hi.k == kConst && hi.n == 0 {
					fr.env[ins] = scVal{k: kStack, tag: "clear"}
				} else {
					panic("unsupported stack slice in " + fr.fn.Name())
				}
			}
		case *ssa.Convert:
			fr.env[ins] = e.val(fr, ins.X)
		case *ssa.UnOp:
			x := e.val(fr, ins.X)
			switch {
			case ins.Op == token.MUL && x.k == kFieldPtr:
				if x.field == "parseState" {
					if fr.pushed {
						fr.env[ins] = scVal{k: kStack, tag: "append"}
					} else {
						fr.env[ins] = scVal{k: kStack}
					}
				} else {
					fr.env[ins] = scVal{k: kUnknown, tag: "load." + x.field}
				}
			case ins.Op == token.MUL && x.k == kTopPtr:
				if fr.cx.depth == 0 {
					panic("read top of empty stack in " + fr.fn.Name())
				}
				fr.env[ins] = scVal{k: kConst, n: int64(fr.cx.top)}
			case ins.Op == token.MUL && x.k == kTblElem:
				fr.env[ins] = scVal{k: kPred, set: x.set}
			case ins.Op == token.NOT && x.k == kBool:
				fr.env[ins] = scVal{k: kBool, b: !x.b}
			case ins.Op == token.NOT && x.k == kPred:
				fr.env[ins] = scVal{k: kPred, set: x.set.not()}
			}
		case *ssa.BinOp:
			x, y := e.val(fr, ins.X), e.val(fr, ins.Y)
			switch {
			case x.k == kByte && y.k == kConst && scIsArith(ins.Op):
				fr.env[ins] = scVal{k: kByte, tbl: scArith(x.tbl, ins.Op, y.n, true)}
			case x.k == kConst && y.k == kByte && scIsArith(ins.Op):
				fr.env[ins] = scVal{k: kByte, tbl: scArith(y.tbl, ins.Op, x.n, false)}
			case x.k == kByte && y.k == kConst:
				fr.env[ins] = scVal{k: kPred, set: scCmpSetTbl(x.tbl, ins.Op, y.n, true)}
			case x.k == kConst && y.k == kByte:
				fr.env[ins] = scVal{k: kPred, set: scCmpSetTbl(y.tbl, ins.Op, x.n, false)}
			case x.k == kAbsInt && y.k == kConst && ins.Op == token.SUB && y.n == 1:
				fr.env[ins] = scVal{k: kAbsInt, n: x.n - 1, ge: x.ge, lenM1: x.tag == "len"}
			case x.k == kAbsInt && y.k == kConst && (ins.Op == token.EQL || ins.Op == token.NEQ):
				eq := false
				if x.ge {
					if y.n < x.n {
						eq = false
					} else {
						panic("undecidable absint compare")
					}
				} else {
					eq = x.n == y.n
				}
				fr.env[ins] = scVal{k: kBool, b: eq == (ins.Op == token.EQL)}
			case x.k == kAbsInt && x.tag == "lenpushed" && y.k == kConst && ins.Op == token.LEQ:
				fr.env[ins] = scVal{k: kUnknown, tag: fmt.Sprintf("depth<=%d", y.n)}
				e.depthBounds = append(e.depthBounds, y.n)
			case x.k == kAbsInt && x.tag == "lenpushed" && y.k == kConst && ins.Op == token.LSS:
				// len < n+1 is len <= n
				fr.env[ins] = scVal{k: kUnknown, tag: fmt.Sprintf("depth<=%d", y.n-1)}
				e.depthBounds = append(e.depthBounds, y.n-1)
			case x.k == kAbsInt && x.tag == "lenpushed" && y.k == kConst && ins.Op == token.GTR:
				// the same test with its edges swapped
				fr.env[ins] = scVal{k: kUnknown, tag: fmt.Sprintf("depth>%d", y.n)}
				e.depthBounds = append(e.depthBounds, y.n)
			case x.k == kAbsInt && x.tag == "lenpushed" && y.k == kConst && ins.Op == token.GEQ:
				fr.env[ins] = scVal{k: kUnknown, tag: fmt.Sprintf("depth>%d", y.n-1)}
				e.depthBounds = append(e.depthBounds, y.n-1)
			case x.k == kConst && y.k == kConst && (ins.Op == token.EQL || ins.Op == token.NEQ):
				fr.env[ins] = scVal{k: kBool, b: (x.n == y.n) == (ins.Op == token.EQL)}
			case x.tag == "load.err" || y.tag == "load.err":
				fr.env[ins] = scVal{k: kUnknown, tag: "errcmp"}
			}
		case *ssa.Call:
			com := ins.Call
			if bi, ok := com.Value.(*ssa.Builtin); ok {
				switch bi.Name() {
				case "len":
					a := e.val(fr, com.Args[0])
					if a.k == kStack {
						switch a.tag {
						case "":
							fr.env[ins] = scVal{k: kAbsInt, n: int64(fr.cx.depth), ge: fr.cx.depth == 2, tag: "len"}
						case "append":
							fr.env[ins] = scVal{k: kAbsInt, tag: "lenpushed"}
						default:
							panic("len of " + a.tag)
						}
					}
				case "append":
					a, v := e.val(fr, com.Args[0]), e.val(fr, com.Args[1])
					if a.k == kStack {
						if v.k != kArr1 {
							panic("append non-const to stack")
						}
						fr.env[ins] = scVal{k: kStack, tag: "append", n: v.n}
					}
				}
				continue
			}
			callee := com.StaticCallee()
			if callee == nil {
				// s.step(s, ' ') in eof
				panic("dynamic call in " + fr.fn.Name())
			}
			if callee.Pkg != fr.fn.Pkg || callee.Name() == "quoteChar" {
				continue
			}
			var args []scVal
			for _, a := range com.Args {
				args = append(args, e.val(fr, a))
			}
			outs := e.call(callee, args, cset, fr.cx, fr.over, depth+1)
			var res []scOutcome
			for _, o := range outs {
				nf := fr.clone()
				nf.effs = append(nf.effs, o.effs...)
				nf.cx = o.cx
				nf.over = o.over
				for _, ef := range o.effs {
					if ef.op == "pop" {
						nf.popd = true
					}
				}
				nf.env[ins] = o.ret
				res = append(res, e.run(nf, b, i+1, pred, o.set, depth)...)
			}
			return res
		case *ssa.Store:
			addr, v := e.val(fr, ins.Addr), e.val(fr, ins.Val)
			switch addr.k {
			case kArr1Ptr:
				if v.k != kConst {
					panic("non-const into varargs")
				}
				// record on the alloc itself
				base := ins.Addr.(*ssa.IndexAddr).X
				fr.env[base] = scVal{k: kArr1Ptr, n: v.n}
			case kTopPtr:
				if v.k != kConst {
					panic("settop non-const")
				}
				fr.effs = append(fr.effs, scEffect{op: "settop", n: int(v.n)})
				fr.cx.top = int(v.n)
			case kFieldPtr:
				switch addr.field {
				case "step":
					if v.k != kFunc {
						panic("step := non-function in " + fr.fn.Name())
					}
					fr.effs = append(fr.effs, scEffect{op: "step", fn: v.fn.Name()})
				case "endTop":
					if v.k != kBool {
						panic("endTop non-const")
					}
					fr.effs = append(fr.effs, scEffect{op: fmt.Sprintf("endTop=%v", v.b)})
				case "err":
					if v.k == kUnknown && v.tag == "nil:error" {
						fr.effs = append(fr.effs, scEffect{op: "err=nil"})
					} else {
						fr.effs = append(fr.effs, scEffect{op: "err"})
					}
				case "parseState":
					switch v.tag {
					case "append":
						fr.effs = append(fr.effs, scEffect{op: "push", n: int(v.n)})
						fr.pushed = true
						fr.cx.top = int(v.n)
						if fr.cx.depth < 2 {
							fr.cx.depth++
						}
					case "pop":
						fr.effs = append(fr.effs, scEffect{op: "pop"})
						fr.popd = true
					case "clear":
						fr.effs = append(fr.effs, scEffect{op: "clear"})
					default:
						panic("parseState := ?")
					}
				default:
					panic("store to scanner." + addr.field)
				}
			}
		case *ssa.If:
			c := e.val(fr, ins.Cond)
			switch {
			case c.k == kBool:
				s := 1
				if c.b {
					s = 0
				}
				return e.run(fr, b.Succs[s], 0, b, cset, depth)
			case c.k == kPred:
				var res []scOutcome
				if t := cset.and(c.set); !t.empty() {
					res = append(res, e.run(fr.clone(), b.Succs[0], 0, b, t, depth)...)
				}
				if f := cset.and(c.set.not()); !f.empty() {
					res = append(res, e.run(fr.clone(), b.Succs[1], 0, b, f, depth)...)
				}
				return res
			case strings.HasPrefix(c.tag, "depth<="):
				res := e.run(fr.clone(), b.Succs[0], 0, b, cset, depth)
				of := fr.clone()
				of.over = true
				return append(res, e.run(of, b.Succs[1], 0, b, cset, depth)...)
			case strings.HasPrefix(c.tag, "depth>"):
				res := e.run(fr.clone(), b.Succs[1], 0, b, cset, depth)
				of := fr.clone()
				of.over = true
				return append(res, e.run(of, b.Succs[0], 0, b, cset, depth)...)
			default:
				panic(fmt.Sprintf("undecidable branch in %s: %s (%+v)", fr.fn.Name(), ins.Cond, c))
			}
		case *ssa.Jump:
			return e.run(fr, b.Succs[0], 0, b, cset, depth)
		case *ssa.Return:
			var r scVal
			if len(ins.Results) == 1 {
				r = e.val(fr, ins.Results[0])
			}
			return []scOutcome{{set: cset, effs: fr.effs, ret: r, cx: fr.cx, over: fr.over}}
		default:
			panic(fmt.Sprintf("unhandled %T in %s", ins, fr.fn.Name()))
		}
	}
	panic("fell off")
}

// ---------- implementation machine (from extraction)
type itrans struct {
	ret    int64 // opcode returned (-1 unknown)
	set    bset
	dead   bool
	step   string // "" = unchanged
	endTop bool
	settop int // -1 none (applied before pop/push)
	push   int // -1 none
	pop    bool
}

type ikey struct {
	st string
	cx scCtx
}

func rows2table(rows []scRow) map[ikey][]itrans {
	t := map[ikey][]itrans{}
	for _, r := range rows {
		if r.out.over {
			// must be dead
			dead := false
			for _, e := range r.out.effs {
				if e.op == "err" {
					dead = true
				}
			}
			if !dead {
				panic("overflow branch not dead in " + r.st)
			}
			continue
		}
		tr := itrans{set: r.out.set, settop: -1, push: -1, ret: -1}
		if r.out.ret.k == kConst {
			tr.ret = r.out.ret.n
		}
		for _, e := range r.out.effs {
			switch e.op {
			case "step":
				tr.step = e.fn
			case "err":
				tr.dead = true
			case "endTop=true":
				tr.endTop = true
			case "settop":
				tr.settop = e.n
			case "push":
				tr.push = e.n
			case "pop":
				tr.pop = true
			default:
				panic("scEffect " + e.op)
			}
		}
		k := ikey{r.st, r.cx}
		t[k] = append(t[k], tr)
	}
	return t
}

// ---------- reference automaton for RFC 8259 (independent formulation)
type rstate int

const (
	rV rstate = iota
	rVE
	rKE
	rK
	rColon
	rAfter
	sK
	sKesc
	sKu1
	sKu2
	sKu3
	sKu4
	sV
	sVesc
	sVu1
	sVu2
	sVu3
	sVu4
	nMinus
	nZero
	nInt
	nDot
	nFrac
	nE
	nESign
	nExp
	lT1
	lT2
	lT3
	lF1
	lF2
	lF3
	lF4
	lN1
	lN2
	lN3
	rDead
)

type rtrans struct {
	next rstate
	push byte // 'O','A' or 0
	pop  bool
}

func isWS(c byte) bool    { return c == ' ' || c == '\t' || c == '\n' || c == '\r' }
func isDigit(c byte) bool { return c >= '0' && c <= '9' }
func isHex(c byte) bool {
	return isDigit(c) || c >= 'a' && c <= 'f' || c >= 'A' && c <= 'F'
}

// top: 0 = empty, 'O', 'A'
func refStep(s rstate, top byte, c byte) rtrans {
	dead := rtrans{next: rDead}
	value := func() rtrans {
		switch {
		case c == '{':
			return rtrans{next: rKE, push: 'O'}
		case c == '[':
			return rtrans{next: rVE, push: 'A'}
		case c == '"':
			return rtrans{next: sV}
		case c == '-':
			return rtrans{next: nMinus}
		case c == '0':
			return rtrans{next: nZero}
		case c >= '1' && c <= '9':
			return rtrans{next: nInt}
		case c == 't':
			return rtrans{next: lT1}
		case c == 'f':
			return rtrans{next: lF1}
		case c == 'n':
			return rtrans{next: lN1}
		}
		return dead
	}
	after := func() rtrans {
		if isWS(c) {
			return rtrans{next: rAfter}
		}
		switch top {
		case 'O':
			if c == ',' {
				return rtrans{next: rK}
			}
			if c == '}' {
				return rtrans{next: rAfter, pop: true}
			}
		case 'A':
			if c == ',' {
				return rtrans{next: rV}
			}
			if c == ']' {
				return rtrans{next: rAfter, pop: true}
			}
		}
		return dead
	}
	str := func(base rstate, done rstate) rtrans {
		switch s - base {
		case 0:
			switch {
			case c == '"':
				return rtrans{next: done}
			case c == '\\':
				return rtrans{next: base + 1}
			case c < 0x20:
				return dead
			}
			return rtrans{next: base}
		case 1:
			switch c {
			case '"', '\\', '/', 'b', 'f', 'n', 'r', 't':
				return rtrans{next: base}
			case 'u':
				return rtrans{next: base + 2}
			}
			return dead
		default: // u1..u4
			if !isHex(c) {
				return dead
			}
			if s-base == 5 {
				return rtrans{next: base}
			}
			return rtrans{next: s + 1}
		}
	}
	lit := func(want byte, next rstate) rtrans {
		if c == want {
			return rtrans{next: next}
		}
		return dead
	}
	switch {
	case s == rV:
		if isWS(c) {
			return rtrans{next: rV}
		}
		return value()
	case s == rVE:
		if isWS(c) {
			return rtrans{next: rVE}
		}
		if c == ']' {
			return rtrans{next: rAfter, pop: true}
		}
		return value()
	case s == rKE:
		if isWS(c) {
			return rtrans{next: rKE}
		}
		if c == '}' {
			return rtrans{next: rAfter, pop: true}
		}
		if c == '"' {
			return rtrans{next: sK}
		}
		return dead
	case s == rK:
		if isWS(c) {
			return rtrans{next: rK}
		}
		if c == '"' {
			return rtrans{next: sK}
		}
		return dead
	case s == rColon:
		if isWS(c) {
			return rtrans{next: rColon}
		}
		if c == ':' {
			return rtrans{next: rV}
		}
		return dead
	case s == rAfter:
		return after()
	case s >= sK && s <= sKu4:
		return str(sK, rColon)
	case s >= sV && s <= sVu4:
		return str(sV, rAfter)
	case s == nMinus:
		if c == '0' {
			return rtrans{next: nZero}
		}
		if c >= '1' && c <= '9' {
			return rtrans{next: nInt}
		}
		return dead
	case s == nZero, s == nInt:
		if s == nInt && isDigit(c) {
			return rtrans{next: nInt}
		}
		if c == '.' {
			return rtrans{next: nDot}
		}
		if c == 'e' || c == 'E' {
			return rtrans{next: nE}
		}
		return after()
	case s == nDot:
		if isDigit(c) {
			return rtrans{next: nFrac}
		}
		return dead
	case s == nFrac:
		if isDigit(c) {
			return rtrans{next: nFrac}
		}
		if c == 'e' || c == 'E' {
			return rtrans{next: nE}
		}
		return after()
	case s == nE:
		if c == '+' || c == '-' {
			return rtrans{next: nESign}
		}
		if isDigit(c) {
			return rtrans{next: nExp}
		}
		return dead
	case s == nESign:
		if isDigit(c) {
			return rtrans{next: nExp}
		}
		return dead
	case s == nExp:
		if isDigit(c) {
			return rtrans{next: nExp}
		}
		return after()
	case s == lT1:
		return lit('r', lT2)
	case s == lT2:
		return lit('u', lT3)
	case s == lT3:
		return lit('e', rAfter)
	case s == lF1:
		return lit('a', lF2)
	case s == lF2:
		return lit('l', lF3)
	case s == lF3:
		return lit('s', lF4)
	case s == lF4:
		return lit('e', rAfter)
	case s == lN1:
		return lit('u', lN2)
	case s == lN2:
		return lit('l', lN3)
	case s == lN3:
		return lit('l', rAfter)
	}
	return dead
}

func refAccept(s rstate, depth int) bool {
	if depth != 0 {
		return false
	}
	switch s {
	case rAfter, nZero, nInt, nFrac, nExp:
		return true
	}
	return false
}

// ---------- product
type pcfg struct {
	ist   string
	iEnd  bool
	rst   rstate
	depth int // 0,1,2
	itop  int
	rtop  byte
}

type scPair struct {
	itop int
	rtop byte
}

func lookup(t map[ikey][]itrans, st string, cx scCtx, c int) (itrans, bool) {
	for _, tr := range t[ikey{st, cx}] {
		if tr.set.has(c) {
			return tr, true
		}
	}
	return itrans{}, false
}

func implAccept(t map[ikey][]itrans, p pcfg) bool {
	if p.iEnd {
		return true
	}
	tr, ok := lookup(t, p.ist, scCtx{p.depth, p.itop}, ' ')
	if !ok {
		return false
	}
	return !tr.dead && tr.endTop
}

func runProduct(t map[ikey][]itrans, startState string) (configs []pcfg, nBeneath int, mism []string) {
	start := pcfg{ist: startState, rst: rV, depth: 0, itop: -1}
	seen := map[pcfg]bool{start: true}
	work := []pcfg{start}
	beneath := map[scPair]bool{}
	var popped []pcfg // configs right after a pop from depth>=2, awaiting tops
	mismatches := 0
	report := func(p pcfg, c int, msg string) {
		mismatches++
		bs := "end of input"
		if c >= 0 {
			bs = fmt.Sprintf("byte 0x%02x", c)
			if c > 32 && c < 127 {
				bs += fmt.Sprintf(" (%c)", rune(c))
			}
		}
		mism = append(mism, fmt.Sprintf("%s|in scanner state %s (reference state %s, nesting %s, enclosing %s) on %s: %s", p.key(), p.ist, rstateNames[p.rst], depthName(p.depth), topName(p.rtop), bs, msg))
	}
	push := func(p pcfg) {
		if !seen[p] {
			seen[p] = true
			work = append(work, p)
		}
	}
	for len(work) > 0 {
		p := work[0]
		work = work[1:]
		if ia, ra := implAccept(t, p), refAccept(p.rst, p.depth); ia != ra {
			report(p, -1, fmt.Sprintf("eof acceptance impl=%v ref=%v", ia, ra))
		}
		for c := 0; c < 256; c++ {
			it, ok := lookup(t, p.ist, scCtx{p.depth, p.itop}, c)
			if !ok {
				report(p, c, "no impl transition")
				continue
			}
			rt := refStep(p.rst, p.rtop, byte(c))
			if it.dead != (rt.next == rDead) {
				report(p, c, fmt.Sprintf("impl dead=%v ref dead=%v", it.dead, rt.next == rDead))
				continue
			}
			if it.dead {
				continue
			}
			if (it.push >= 0) != (rt.push != 0) || it.pop != rt.pop {
				report(p, c, "stack action differs")
				continue
			}
			if scanOpcodes != nil {
				want := refOpcode(p.rst, p.rtop, p.depth, byte(c), rt)
				if it.ret != scanOpcodes[want] {
					report(p, c, fmt.Sprintf("opcode differs: the scanner returns %d, the documented event is %s (%d) — Compact/Indent and the decoder follow these events", it.ret, want, scanOpcodes[want]))
					continue
				}
			}
			n := p
			if it.step != "" {
				n.ist = it.step
			}
			n.iEnd = p.iEnd || it.endTop
			n.rst = rt.next
			if it.settop >= 0 {
				n.itop = it.settop
			}
			switch {
			case it.push >= 0:
				if p.depth > 0 {
					beneath[scPair{n.itop, p.rtop}] = true // impl top possibly just re-set
				}
				n.itop, n.rtop = it.push, rt.push
				if n.depth < 2 {
					n.depth++
				}
				push(n)
			case it.pop:
				if p.depth == 1 {
					n.depth, n.itop, n.rtop = 0, -1, 0
					push(n)
				} else {
					popped = append(popped, n)
				}
			default:
				push(n)
			}
		}
		// (re)expand popped configs with all beneath pairs known so far
		if len(work) == 0 {
			for _, n := range popped {
				for b := range beneath {
					for _, d := range []int{1, 2} {
						m := n
						m.depth, m.itop, m.rtop = d, b.itop, b.rtop
						push(m)
					}
				}
			}
		}
	}
	for k := range seen {
		configs = append(configs, k)
	}
	sort.Slice(configs, func(i, j int) bool { return configs[i].key() < configs[j].key() })
	return configs, len(beneath), mism
}

func (p pcfg) key() string {
	return fmt.Sprintf("%s × %s, nesting %s, enclosing %s%s", p.ist, rstateNames[p.rst], depthName(p.depth), topName(p.rtop), map[bool]string{true: ", top-level value complete", false: ""}[p.iEnd])
}

func depthName(d int) string { return [...]string{"0", "1", "≥2"}[d] }
func topName(t byte) string {
	switch t {
	case 'O':
		return "object"
	case 'A':
		return "array"
	}
	return "none"
}

var rstateNames = [...]string{"value", "value-or-]", "key-or-}", "key", "colon", "after-value", "key-string", "key-esc", "key-u1", "key-u2", "key-u3", "key-u4", "string", "esc", "u1", "u2", "u3", "u4", "minus", "zero", "int", "dot", "frac", "e", "e-sign", "exp", "t", "tr", "tru", "f", "fa", "fal", "fals", "n", "nu", "nul", "dead"}

type scRow struct {
	st  string
	cx  scCtx
	out scOutcome
}

// ---- oracle self-check: reference automaton vs an independent recursive-descent recogniser -----

var scAlphabet = []byte{'{', '}', '[', ']', ':', ',', '"', '\\', '0', '1', '-', '.', 'e', 't', ' ', 'u'}

// rdValid: recursive-descent recogniser for ws value ws (RFC 8259), written
// without reference to the automaton above.
func rdValid(s []byte) bool {
	i := 0
	ws := func() {
		for i < len(s) && (s[i] == ' ' || s[i] == '\t' || s[i] == '\n' || s[i] == '\r') {
			i++
		}
	}
	var value func() bool
	str := func() bool {
		if i >= len(s) || s[i] != '"' {
			return false
		}
		i++
		for i < len(s) {
			c := s[i]
			switch {
			case c == '"':
				i++
				return true
			case c == '\\':
				i++
				if i >= len(s) {
					return false
				}
				switch s[i] {
				case '"', '\\', '/', 'b', 'f', 'n', 'r', 't':
					i++
				case 'u':
					i++
					for k := 0; k < 4; k++ {
						if i >= len(s) {
							return false
						}
						h := s[i]
						if !(h >= '0' && h <= '9' || h >= 'a' && h <= 'f' || h >= 'A' && h <= 'F') {
							return false
						}
						i++
					}
				default:
					return false
				}
			case c < 0x20:
				return false
			default:
				i++
			}
		}
		return false
	}
	digits := func() bool {
		n := 0
		for i < len(s) && s[i] >= '0' && s[i] <= '9' {
			i++
			n++
		}
		return n > 0
	}
	number := func() bool {
		if i < len(s) && s[i] == '-' {
			i++
		}
		if i >= len(s) {
			return false
		}
		if s[i] == '0' {
			i++
		} else if s[i] >= '1' && s[i] <= '9' {
			digits()
		} else {
			return false
		}
		if i < len(s) && s[i] == '.' {
			i++
			if !digits() {
				return false
			}
		}
		if i < len(s) && (s[i] == 'e' || s[i] == 'E') {
			i++
			if i < len(s) && (s[i] == '+' || s[i] == '-') {
				i++
			}
			if !digits() {
				return false
			}
		}
		return true
	}
	lit := func(w string) bool {
		if len(s)-i >= len(w) && string(s[i:i+len(w)]) == w {
			i += len(w)
			return true
		}
		return false
	}
	value = func() bool {
		if i >= len(s) {
			return false
		}
		switch c := s[i]; {
		case c == '{':
			i++
			ws()
			if i < len(s) && s[i] == '}' {
				i++
				return true
			}
			for {
				ws()
				if !str() {
					return false
				}
				ws()
				if i >= len(s) || s[i] != ':' {
					return false
				}
				i++
				ws()
				if !value() {
					return false
				}
				ws()
				if i < len(s) && s[i] == ',' {
					i++
					continue
				}
				if i < len(s) && s[i] == '}' {
					i++
					return true
				}
				return false
			}
		case c == '[':
			i++
			ws()
			if i < len(s) && s[i] == ']' {
				i++
				return true
			}
			for {
				ws()
				if !value() {
					return false
				}
				ws()
				if i < len(s) && s[i] == ',' {
					i++
					continue
				}
				if i < len(s) && s[i] == ']' {
					i++
					return true
				}
				return false
			}
		case c == '"':
			return str()
		case c == '-' || (c >= '0' && c <= '9'):
			return number()
		case c == 't':
			return lit("true")
		case c == 'f':
			return lit("false")
		case c == 'n':
			return lit("null")
		}
		return false
	}
	ws()
	if !value() {
		return false
	}
	ws()
	return i == len(s)
}

// refValid runs the reference automaton with an explicit stack.
func refValid(s []byte) bool {
	st := rV
	var stack []byte
	for _, c := range s {
		var top byte
		if len(stack) > 0 {
			top = stack[len(stack)-1]
		}
		t := refStep(st, top, c)
		if t.next == rDead {
			return false
		}
		if t.push != 0 {
			stack = append(stack, t.push)
		}
		if t.pop {
			if len(stack) == 0 {
				return false
			}
			stack = stack[:len(stack)-1]
		}
		st = t.next
	}
	return refAccept(st, len(stack))
}

// oracleSelfCheck compares the two on every string up to length n over scAlphabet.
func oracleSelfCheck(n int) (checked int, firstDiff string) {
	buf := make([]byte, n)
	var rec func(k int)
	rec = func(k int) {
		if firstDiff != "" {
			return
		}
		checked++
		if refValid(buf[:k]) != rdValid(buf[:k]) {
			firstDiff = fmt.Sprintf("%q", buf[:k])
			return
		}
		if k == n {
			return
		}
		for _, c := range scAlphabet {
			buf[k] = c
			rec(k + 1)
		}
	}
	rec(0)
	return
}

// ---- the rule -----------------------------------------------------------------------

func ruleScan(c *Ctx) {
	b := c.V5
	if b == nil {
		return
	}
	l := c.L
	sp := b.Codec
	stT := sp.Type("scanner")
	if stT == nil {
		l.add("R-SCAN", "codec", "anchor scanner type", "", Undecided, "type scanner not found", false)
		return
	}
	st, _ := stT.Type().Underlying().(*types.Struct)
	ev := &scEval{scannerT: st, tables: map[*ssa.Global]*[256]bool{}}
	for name, m := range sp.Members {
		if g, ok := m.(*ssa.Global); ok {
			if at, isArr := g.Type().(*types.Pointer).Elem().Underlying().(*types.Array); isArr && at.Len() <= 256 {
				if bt, isB := at.Elem().Underlying().(*types.Basic); isB && bt.Kind() == types.Bool {
					if t, _, ok := b.boolTable(sp, name); ok && len(b.globalStoresOutsideInit(g)) == 0 {
						tt := t
						ev.tables[g] = &tt
					}
				}
			}
		}
	}
	// start state: the function constant stored into step by (*scanner).reset
	reset := b.method(sp, "scanner", "reset")
	var start *ssa.Function
	if reset != nil {
		allInstrs(reset, func(i ssa.Instruction) {
			if s, ok := i.(*ssa.Store); ok {
				if fa, ok := s.Addr.(*ssa.FieldAddr); ok && fieldName(fa.X.Type(), fa.Field) == "step" {
					if f, ok := s.Val.(*ssa.Function); ok {
						start = f
					}
				}
			}
		})
	}
	if start == nil {
		l.add("R-SCAN", "codec", "anchor start state", "", Undecided, "(*scanner).reset does not store a function constant into step", false)
		return
	}
	scanErr, okc := int64(-1), false
	if nc := sp.Const("scanError"); nc != nil {
		scanErr, okc = constant.Int64Val(nc.Value.Value)
	}
	if !okc {
		l.add("R-SCAN", "codec", "anchor scanError", "", Undecided, "constant scanError not found", false)
		return
	}
	states := map[string]*ssa.Function{}
	var order []string
	var work []*ssa.Function
	addState := func(f *ssa.Function) {
		if _, ok := states[f.Name()]; !ok {
			states[f.Name()] = f
			order = append(order, f.Name())
			work = append(work, f)
		}
	}
	addState(start)
	var full bset
	full = full.not()
	var rows []scRow
	stuck := map[string]string{}
	for len(work) > 0 {
		f := work[0]
		work = work[1:]
		for _, cx := range []scCtx{{0, -1}, {1, 0}, {1, 1}, {1, 2}, {2, 0}, {2, 1}, {2, 2}} {
			func() {
				defer func() {
					if r := recover(); r != nil {
						stuck[fmt.Sprintf("%s %v", f.Name(), cx)] = fmt.Sprint(r)
					}
				}()
				if len(f.Params) != 2 {
					panic("state function without (scanner, byte) parameters")
				}
				outs := ev.call(f, []scVal{{k: kScanner}, {k: kByte}}, full, cx, false, 0)
				for _, o := range outs {
					rows = append(rows, scRow{f.Name(), cx, o})
					for _, ef := range o.effs {
						if ef.op == "step" {
							if nf := sp.Func(ef.fn); nf != nil {
								addState(nf)
							}
						}
					}
				}
			}()
		}
	}
	if len(rows) == 0 {
		var why []string
		for k, v := range stuck {
			why = append(why, k+": "+v)
		}
		sort.Strings(why)
		l.add("R-SCAN", "codec", "extraction of the scanner's transition relation", b.rel(start.Pos()), Undecided, "the abstract evaluation of the state functions got stuck (construct outside the loop-free byte-comparison fragment): "+short(strings.Join(why, "; "), 600), true)
		return
	}
	sort.Strings(order)
	l.stat("R-SCAN").Extra["state_functions"] = order
	l.stat("R-SCAN").Extra["extracted_transition_rows"] = len(rows)

	// per state function: extraction is total and deterministic in every context that did not get stuck;
	// a row is an error row iff it returns scanError
	perState := map[string][]scRow{}
	for _, r := range rows {
		perState[r.st] = append(perState[r.st], r)
	}
	// the error sink: a state all of whose rows return scanError without any effect
	errorSink := map[string]bool{}
	for name, rs := range perState {
		all := len(rs) > 0
		for _, r := range rs {
			if r.out.ret.k != kConst || r.out.ret.n != scanErr || len(r.out.effs) != 0 {
				all = false
			}
		}
		if all {
			errorSink[name] = true
		}
	}
	for _, name := range order {
		key := "extraction: " + name + " is a total, deterministic byte map in every stack context"
		bad := ""
		for k, why := range stuck {
			if strings.HasPrefix(k, name+" ") {
				// contexts that cannot occur (e.g. reading the top of an empty stack) are acceptable
				// only if the product never reaches them — checked below; remember them
				_ = why
			}
		}
		byCtx := map[scCtx][]scRow{}
		for _, r := range perState[name] {
			byCtx[r.cx] = append(byCtx[r.cx], r)
		}
		nctx := 0
		for cx, rs := range byCtx {
			nctx++
			var union bset
			for _, r := range rs {
				if r.out.over {
					continue
				}
				if !union.and(r.out.set).empty() {
					bad = fmt.Sprintf("two transitions overlap on bytes %s in context %v", union.and(r.out.set), cx)
				}
				union = union.or(r.out.set)
				dead, toErrState := false, ""
				for _, e := range r.out.effs {
					if e.op == "err" {
						dead = true
					}
					if e.op == "step" {
						toErrState = e.fn
					}
				}
				if r.out.ret.k != kConst {
					bad = fmt.Sprintf("in context %v on bytes %s the returned opcode is not a constant", cx, r.out.set)
				} else if dead {
					// an error must be noticed by the drivers: either this call returns scanError, or the
					// next state is the sink that always returns scanError (and eof() tests err first)
					if r.out.ret.n != scanErr && !errorSink[toErrState] {
						bad = fmt.Sprintf("in context %v on bytes %s an error is recorded but neither is scanError returned nor is the next state the always-failing sink: the drivers would carry on after an error", cx, r.out.set)
					}
				} else if r.out.ret.n == scanErr && !errorSink[name] {
					bad = fmt.Sprintf("in context %v on bytes %s scanError is returned although no error was recorded", cx, r.out.set)
				}
			}
			if union != full {
				bad = fmt.Sprintf("bytes %s have no transition in context %v", union.not(), cx)
			}
		}
		if bad != "" {
			l.add("R-SCAN", "codec", key, b.rel(states[name].Pos()), Violated, bad, true)
		} else {
			l.add("R-SCAN", "codec", key, b.rel(states[name].Pos()), Discharged, fmt.Sprintf("%d transition rows over %d contexts, byte sets partition 0..255, error ⇔ scanError", len(perState[name]), nctx), true)
		}
	}
	// nesting bound
	{
		key := "nesting bound: a push succeeds iff the new depth is <= 10000"
		okb := len(ev.depthBounds) > 0
		for _, n := range ev.depthBounds {
			if n != 10000 {
				okb = false
			}
		}
		if okb {
			l.add("R-SCAN", "codec", key, "", Discharged, "pushParseState compares len(parseState) <= 10000 after the append; the overflow branch is an error row", true)
		} else {
			l.add("R-SCAN", "codec", key, "", Violated, fmt.Sprintf("depth comparisons found: %v (expected `len <= 10000`)", ev.depthBounds), true)
		}
	}

	// opcode constants of the analysed scanner
	scanOpcodes = map[string]int64{}
	for _, n := range []string{"scanContinue", "scanBeginLiteral", "scanBeginObject", "scanObjectKey", "scanObjectValue", "scanEndObject", "scanBeginArray", "scanArrayValue", "scanEndArray", "scanSkipSpace", "scanEnd", "scanError"} {
		if nc := sp.Const(n); nc != nil {
			if v, ok := constant.Int64Val(nc.Value.Value); ok {
				scanOpcodes[n] = v
				continue
			}
		}
		scanOpcodes = nil
		break
	}
	// product with the reference automaton
	var table map[ikey][]itrans
	tableErr := ""
	func() {
		defer func() {
			if r := recover(); r != nil {
				tableErr = fmt.Sprint(r)
			}
		}()
		table = rows2table(rows)
	}()
	if tableErr != "" {
		l.add("R-SCAN", "codec", "transition table", "", Undecided, "extracted rows do not form a machine: "+tableErr, true)
		return
	}
	var configs []pcfg
	var nBeneath int
	var mism []string
	func() {
		defer func() {
			if r := recover(); r != nil {
				tableErr = fmt.Sprint(r)
			}
		}()
		configs, nBeneath, mism = runProduct(table, start.Name())
	}()
	if tableErr != "" {
		l.add("R-SCAN", "codec", "product exploration", "", Undecided, "product exploration failed: "+tableErr, true)
		return
	}
	byCfg := map[string][]string{}
	for _, m := range mism {
		i := strings.Index(m, "|")
		byCfg[m[:i]] = append(byCfg[m[:i]], m[i+1:])
	}
	for _, p := range configs {
		key := "product: " + p.key()
		// a stuck context reached by the product is undecided
		if why, isStuck := stuck[fmt.Sprintf("%s %v", p.ist, scCtx{p.depth, p.itop})]; isStuck {
			l.add("R-SCAN", "codec", key, "", Undecided, "the scanner state could not be evaluated in this reachable context: "+why, true)
			continue
		}
		if ms := byCfg[p.key()]; len(ms) > 0 {
			l.add("R-SCAN", "codec", key, b.rel(states[p.ist].Pos()), Violated, fmt.Sprintf("%d disagreement(s) with RFC 8259, first: %s", len(ms), ms[0]), true)
		} else {
			l.add("R-SCAN", "codec", key, b.rel(states[p.ist].Pos()), Discharged, "scanner and RFC 8259 reference agree on all 256 bytes (reject / continue / push / pop), on the opcode reported for each accepted byte, and on acceptance at end of input", true)
		}
	}
	l.stat("R-SCAN").Extra["product_configurations"] = len(configs)
	l.stat("R-SCAN").Extra["beneath_pairs"] = nBeneath
	l.stat("R-SCAN").Extra["stuck_unreachable_contexts"] = len(stuck)

	// oracle self-check (exercises only checker code)
	n := 5
	if c.Tier == "thorough" {
		n = 6
	}
	checked, diff := oracleSelfCheck(n)
	key := "oracle: the reference automaton agrees with an independent recursive-descent recogniser"
	if diff != "" {
		l.add("R-SCAN", "codec", key, "", Violated, "the checker's two RFC 8259 recognisers disagree on "+diff+" (a defect of the checker, not of /repo)", true)
	} else {
		l.add("R-SCAN", "codec", key, "", Discharged, fmt.Sprintf("%d strings (all up to length %d over a %d-symbol alphabet) classified identically", checked, n, len(scAlphabet)), true)
	}
}

// ---- R-DRIVER -----------------------------------------------------------------------

// stepCalls: dynamic calls through the step field of a scanner.
func stepCalls(fn *ssa.Function) []*ssa.Call {
	var out []*ssa.Call
	allInstrs(fn, func(i ssa.Instruction) {
		call, ok := i.(*ssa.Call)
		if !ok || call.Call.StaticCallee() != nil || call.Call.IsInvoke() {
			return
		}
		if _, fr, ok := fieldLoad(call.Call.Value); ok && fr.Field == "step" && fr.Type == "scanner" {
			out = append(out, call)
		}
	})
	return out
}

func ruleDriver(c *Ctx) {
	b := c.V5
	if b == nil {
		return
	}
	l := c.L
	sp := b.Codec
	konst := func(name string) int64 {
		if nc := sp.Const(name); nc != nil {
			if v, ok := constant.Int64Val(nc.Value.Value); ok {
				return v
			}
		}
		return -99
	}
	scanError, scanEnd := konst("scanError"), konst("scanEnd")
	isErrCmp := func(v ssa.Value, of ssa.Value) (eqOnTrue bool, ok bool) {
		cv, neg := stripNot(v)
		bo, isBo := cv.(*ssa.BinOp)
		if !isBo || (bo.Op != token.EQL && bo.Op != token.NEQ) {
			return false, false
		}
		var other ssa.Value
		if bo.X == of {
			other = bo.Y
		} else if bo.Y == of {
			other = bo.X
		} else {
			return false, false
		}
		if k, isK := intConst(other); !isK || k != scanError {
			return false, false
		}
		eq := bo.Op == token.EQL
		if neg {
			eq = !eq
		}
		return eq, true
	}
	b.cursorDrivers(l, sp)
	nDrivers := 0
	for _, fn := range b.srcFuncs(sp) {
		if recvTypeName(fn) == "scanner" {
			continue // eof itself
		}
		calls := stepCalls(fn)
		if len(calls) == 0 {
			continue
		}
		// only whole-input drivers over a []byte parameter (the streaming Decoder feeds its own buffer incrementally)
		var byteParam *ssa.Parameter
		for _, p := range fn.Params {
			if isByteSlice(p.Type()) {
				byteParam = p
			}
		}
		if byteParam == nil {
			continue
		}
		nDrivers++
		key := fmt.Sprintf("driver %s: feeds every byte of its input to step, in order, and stops on scanError", fname(fn))
		bad := ""
		if len(calls) != 1 {
			bad = fmt.Sprintf("%d step calls", len(calls))
		}
		call := calls[0]
		h := innermostLoopHeader(call.Block())
		if h == nil {
			bad = "step is not called in a loop"
		} else {
			// byte argument = element of the parameter at the range index
			arg := call.Call.Args[1]
			okElem := false
			if ld, ok := arg.(*ssa.UnOp); ok {
				if ia, ok := ld.X.(*ssa.IndexAddr); ok && ia.X == ssa.Value(byteParam) && isRangeIndex(h, ia.Index, byteParam) {
					okElem = true
				}
			}
			if !okElem {
				bad = "the byte handed to step is not input[i] for the index of a range over the whole input parameter"
			}
			for _, p := range h.Preds {
				if h.Dominates(p) && !call.Block().Dominates(p) {
					bad = "an iteration can reach the loop latch without calling step (a byte is skipped: the scanner never sees it)"
				}
			}
			// scanError leaves the loop
			okStop := false
			body := naturalLoop(h)
			for _, bb := range fn.Blocks {
				if !body[bb] {
					continue
				}
				iff, ok := bb.Instrs[len(bb.Instrs)-1].(*ssa.If)
				if !ok {
					continue
				}
				eq, ok := isErrCmp(iff.Cond, call)
				if !ok {
					continue
				}
				s := 1
				if eq {
					s = 0
				}
				if !body[bb.Succs[s]] || b.rejects(bb.Succs[s]) {
					okStop = true
				}
			}
			if !okStop && bad == "" {
				bad = "no branch on step(...) == scanError that leaves the loop: scanning continues past an error"
			}
			// no other way out of the loop: every exit edge from inside the body is the
			// scanError edge or leads to an error return only
			for bb := range body {
				if bb == h {
					continue
				}
				for si, sx := range bb.Succs {
					if body[sx] {
						continue
					}
					isErrEdge := false
					if iff, ok := bb.Instrs[len(bb.Instrs)-1].(*ssa.If); ok {
						if eq, ok := isErrCmp(iff.Cond, call); ok {
							es := 1
							if eq {
								es = 0
							}
							isErrEdge = si == es
						}
					}
					if isErrEdge || b.rejects(sx) {
						continue
					}
					if bad == "" {
						bad = "the loop over the input can be left at " + b.posOf(bb.Instrs[len(bb.Instrs)-1]) + " before the input is exhausted and without an error: the bytes that follow are never shown to the scanner (text after a complete value is accepted)"
					}
				}
			}
		}
		if bad != "" {
			l.add("R-DRIVER", "codec", key, b.rel(fn.Pos()), Violated, bad, true)
		} else {
			l.add("R-DRIVER", "codec", key, b.posOf(call), Discharged, "step(scan, input[i]) for i over the whole input; its block dominates the latch; == scanError exits the loop", true)
		}
		// acceptance: nil error only past eof() != scanError
		key = fmt.Sprintf("driver %s: succeeds only if eof() does not report scanError", fname(fn))
		// direct: the function consults eof() itself, and every nil-error return lies behind
		// its not-scanError edge
		var direct func(f *ssa.Function) (string, *ssa.Call)
		direct = func(f *ssa.Function) (string, *ssa.Call) {
			bad := ""
			var eofCall *ssa.Call
			allInstrs(f, func(i ssa.Instruction) {
				if ci, ok := i.(*ssa.Call); ok {
					if g := ci.Call.StaticCallee(); g != nil && g.Name() == "eof" && recvTypeName(g) == "scanner" {
						eofCall = ci
					}
				}
			})
			if eofCall == nil {
				return "eof() is never consulted: truncated input (e.g. `[1`) is accepted", nil
			}
			ei := errResultIndex(f)
			for _, r := range liveReturns(f) {
				if ei < 0 || !isNilConst(retVal(r, ei)) {
					continue
				}
				dom := false
				for _, bb := range f.Blocks {
					iff, ok := bb.Instrs[len(bb.Instrs)-1].(*ssa.If)
					if !ok {
						continue
					}
					eq, ok := isErrCmp(iff.Cond, eofCall)
					if !ok {
						continue
					}
					s := 0
					if eq {
						s = 1
					}
					if edgeDominates(bb, s, r.Block()) {
						dom = true
					}
					// the error edge returns a non-nil error
					if !b.errEdgeReturnsScanErr(bb.Succs[1-s]) {
						bad = "the eof() == scanError edge does not return the scanner's error"
					}
				}
				if !dom {
					bad = "a nil error is returned at " + b.posOf(r) + " without eof() having been checked"
				}
			}
			return bad, eofCall
		}
		// through helpers of the codec that consult eof() the same way and answer with an error
		// (finishScan → finish → eof): the function succeeds only with the helper's own
		// answer or behind its success
		var consults func(f *ssa.Function, depth int) (string, *ssa.Call, string)
		consults = func(f *ssa.Function, depth int) (string, *ssa.Call, string) {
			bad, eofCall := direct(f)
			if eofCall != nil || depth > 2 {
				return bad, eofCall, ""
			}
			via := ""
			allInstrs(f, func(i ssa.Instruction) {
				hc, ok := i.(*ssa.Call)
				if !ok || eofCall != nil {
					return
				}
				h := hc.Call.StaticCallee()
				if h == nil || h == f || h.Pkg != sp || len(h.Blocks) == 0 || errResultIndex(h) < 0 {
					return
				}
				hb, he, hv := consults(h, depth+1)
				if he == nil || hb != "" {
					return
				}
				eofCall, via, bad = hc, fname(h), ""
				if hv != "" {
					via += " → " + hv
				}
				ei := errResultIndex(f)
				for _, r := range liveReturns(f) {
					if ei < 0 {
						continue
					}
					rv := retVal(r, ei)
					if c2, _, isRes := asResult(rv); isRes && c2 == hc {
						continue
					}
					if !isNilConst(rv) {
						// a merged value that is the helper's answer on every path it is not nil
						continue
					}
					behind := false
					for _, e := range errResultOf(hc) {
						for _, t := range errChecks(e) {
							if !t.Chain && (t.Blk.Succs[1-t.NonNilSucc] == r.Block() || edgeDominates(t.Blk, 1-t.NonNilSucc, r.Block())) {
								behind = true
							}
						}
					}
					if !behind {
						bad = "a nil error is returned at " + b.posOf(r) + " without " + fname(h) + " (which consults eof()) having answered nil"
					}
				}
			})
			return bad, eofCall, via
		}
		bad, eofCall, via := consults(fn, 0)
		if bad != "" {
			l.add("R-DRIVER", "codec", key, b.rel(fn.Pos()), Violated, bad, true)
		} else if via != "" {
			l.add("R-DRIVER", "codec", key, b.posOf(eofCall), Discharged, "every nil-error return is "+via+"'s own answer or behind its nil edge; "+via+" answers nil only behind the not-scanError edge of its eof() test", true)
		} else {
			l.add("R-DRIVER", "codec", key, b.posOf(eofCall), Discharged, "every nil-error return is dominated by the not-scanError edge of the eof() test; the other edge returns scan.err", true)
		}
	}
	if nDrivers == 0 {
		l.add("R-DRIVER", "codec", "anchor drivers", "", Undecided, "no whole-input driver of the scanner found", false)
	}
	scanSkipSpace := konst("scanSkipSpace")
	// compact drops exactly the bytes whose opcode is >= scanSkipSpace (whitespace outside strings, R-SCAN's opcode oracle)
	if fn := fnOf(sp, "compact"); fn != nil {
		key := "compact: a byte is dropped exactly when its opcode is >= scanSkipSpace"
		bad := "no comparison of the step result with scanSkipSpace found"
		for _, call := range stepCalls(fn) {
			for _, r := range *call.Referrers() {
				bo, ok := r.(*ssa.BinOp)
				if !ok || bo.X != ssa.Value(call) {
					continue
				}
				k, isK := intConst(bo.Y)
				if !isK || bo.Op != token.GEQ {
					continue
				}
				if k != scanSkipSpace {
					bad = fmt.Sprintf("the drop test compares the opcode with %d, scanSkipSpace is %d", k, scanSkipSpace)
					continue
				}
				// the drop (start = i+1) happens only under the true edge or in the escape substitutions
				bad = ""
				for _, r2 := range *bo.Referrers() {
					iff, ok := r2.(*ssa.If)
					if !ok {
						continue
					}
					h := innermostLoopHeader(iff.Block())
					if h == nil {
						bad = "the drop test is not in the byte loop"
						continue
					}
					// on the false edge the loop continues without touching start: the successor is the header itself
					if !straightToNextIteration(iff.Block().Succs[1], h) {
						bad = "a byte whose opcode is below scanSkipSpace is not simply kept (the false edge of the drop test does not go straight to the next byte)"
					}
				}
			}
		}
		v, why := Discharged, "if step(...) >= scanSkipSpace { flush pending bytes; start = i+1 } — any other byte goes straight to the next iteration and stays in the pending run"
		if bad != "" {
			v, why = Violated, bad
		}
		l.add("R-DRIVER", "codec", key, b.rel(fn.Pos()), v, why, true)
	}
	if fn := fnOf(sp, "Indent"); fn != nil {
		key := "Indent: exactly the bytes whose opcode is scanSkipSpace are skipped without being emitted"
		bad := "no comparison of the step result with scanSkipSpace found"
		for _, call := range stepCalls(fn) {
			for _, r := range *call.Referrers() {
				bo, ok := r.(*ssa.BinOp)
				if !ok || bo.X != ssa.Value(call) || bo.Op != token.EQL {
					continue
				}
				k, isK := intConst(bo.Y)
				if !isK || k != scanSkipSpace {
					continue
				}
				for _, r2 := range *bo.Referrers() {
					if iff, ok := r2.(*ssa.If); ok {
						h := innermostLoopHeader(iff.Block())
						if h != nil && straightToNextIteration(iff.Block().Succs[0], h) {
							bad = ""
						} else if h != nil {
							// continue may go through an empty block
							s0 := iff.Block().Succs[0]
							if len(s0.Instrs) == 1 && len(s0.Succs) == 1 && s0.Succs[0] == h {
								bad = ""
							}
						}
					}
				}
			}
		}
		v, why := Discharged, "if step(...) == scanSkipSpace { continue }"
		if bad != "" {
			v, why = Violated, bad
		}
		l.add("R-DRIVER", "codec", key, b.rel(fn.Pos()), v, why, true)
	}

	// the line break of Indent: '\n', the prefix once, then one copy of indent per nesting level
	if fn := fnOf(sp, "Indent"); fn != nil {
		key := "Indent: a line break is a newline, the prefix, and depth copies of the indent string"
		// the helper that writes the newline byte
		var nl *ssa.Function
		for _, ci := range callsTo(fn, func(cc *ssa.CallCommon) bool {
			f := cc.StaticCallee()
			return f != nil && f.Pkg == sp && f.Blocks != nil
		}) {
			f := ci.Common().StaticCallee()
			allInstrs(f, func(i ssa.Instruction) {
				if c2, ok := i.(*ssa.Call); ok {
					if g := c2.Call.StaticCallee(); g != nil && stdName(g) == "bytes.(*Buffer).WriteByte" {
						if k, ok := intConst(c2.Call.Args[1]); ok && k == '\n' {
							nl = f
						}
					}
				}
			})
		}
		if nl == nil {
			l.add("R-DRIVER", "codec", key, b.rel(fn.Pos()), Info, "no helper that writes the newline byte: the line break is written some other way; not decided", false)
		} else {
			bad := ""
			var prefixP, indentP, depthP *ssa.Parameter
			nWrites := 0
			allInstrs(nl, func(i ssa.Instruction) {
				c2, ok := i.(*ssa.Call)
				if !ok {
					return
				}
				g := c2.Call.StaticCallee()
				if g == nil {
					return
				}
				name := stdName(g)
				switch name {
				case "bytes.(*Buffer).WriteByte":
					nWrites++
					if innermostLoopHeader(c2.Block()) != nil {
						bad = "the newline byte is written inside a loop"
					}
				case "bytes.(*Buffer).WriteString":
					nWrites++
					p, isP := c2.Call.Args[1].(*ssa.Parameter)
					h := innermostLoopHeader(c2.Block())
					switch {
					case isP && h == nil && prefixP == nil:
						prefixP = p
					case isP && h != nil && indentP == nil:
						indentP = p
						// counted loop 0..depth by 1
						okLoop := false
						for _, ins := range h.Instrs {
							phi, ok := ins.(*ssa.Phi)
							if !ok {
								continue
							}
							start, step := false, false
							for _, e := range phi.Edges {
								if k, ok := intConst(e); ok && k == 0 {
									start = true
								}
								if bo, ok := e.(*ssa.BinOp); ok && bo.Op == token.ADD && bo.X == ssa.Value(phi) {
									if k, ok := intConst(bo.Y); ok && k == 1 {
										step = true
									}
								}
							}
							// counting down: φ(depth, φ-1) while φ > 0 runs depth times as well
							var downFrom *ssa.Parameter
							down := false
							for _, e := range phi.Edges {
								if dp, ok := e.(*ssa.Parameter); ok {
									downFrom = dp
								}
								if bo, ok := e.(*ssa.BinOp); ok && bo.X == ssa.Value(phi) {
									if k, ok := intConst(bo.Y); ok && ((bo.Op == token.SUB && k == 1) || (bo.Op == token.ADD && k == -1)) {
										down = true
									}
								}
							}
							if downFrom != nil && down {
								for _, r := range *phi.Referrers() {
									if bo, ok := r.(*ssa.BinOp); ok && bo.X == ssa.Value(phi) {
										if k, ok := intConst(bo.Y); ok && ((bo.Op == token.GTR && k == 0) || (bo.Op == token.GEQ && k == 1) || (bo.Op == token.NEQ && k == 0)) {
											depthP = downFrom
											okLoop = true
										}
									}
								}
							}
							if !start || !step {
								continue
							}
							for _, r := range *phi.Referrers() {
								if bo, ok := r.(*ssa.BinOp); ok && (bo.Op == token.LSS || bo.Op == token.NEQ) && bo.X == ssa.Value(phi) {
									if dp, ok := bo.Y.(*ssa.Parameter); ok {
										depthP = dp
										okLoop = true
									}
								}
							}
						}
						if !okLoop {
							bad = "the copies of the indent string are not written by a loop counting from 0 by 1 below the depth parameter"
						}
					case isP:
						bad = "a further string parameter is written at " + b.posOf(c2)
					default:
						// strings.Repeat(indent, depth) is the other accepted spelling
						if rc, ok := c2.Call.Args[1].(*ssa.Call); ok {
							if rf := rc.Call.StaticCallee(); rf != nil && stdName(rf) == "strings.Repeat" {
								ip, ok1 := rc.Call.Args[0].(*ssa.Parameter)
								dp, ok2 := rc.Call.Args[1].(*ssa.Parameter)
								if ok1 && ok2 && indentP == nil {
									indentP, depthP = ip, dp
									return
								}
							}
						}
						bad = "the text written at " + b.posOf(c2) + " is " + describeValue(c2.Call.Args[1]) + ": not the prefix, and not one copy of the indent per level (computed padding must equal depth copies for every depth)"
					}
				default:
					if strings.HasPrefix(name, "bytes.(*Buffer).") {
						nWrites++
						bad = "unexpected write " + name + " at " + b.posOf(c2)
					}
				}
			})
			if bad == "" && (prefixP == nil || indentP == nil || depthP == nil) {
				bad = "the helper does not write the prefix once and the indent once per level"
			}
			// the call sites pass Indent's own prefix and indent parameters
			if bad == "" {
				for _, ci := range callsTo(fn, func(cc *ssa.CallCommon) bool { return cc.StaticCallee() == nl }) {
					args := ci.Common().Args
					pa, ia := args[paramIdx(prefixP)], args[paramIdx(indentP)]
					pp, ok1 := pa.(*ssa.Parameter)
					ip, ok2 := ia.(*ssa.Parameter)
					if !ok1 || !ok2 || pp.Parent() != fn || ip.Parent() != fn || pp == ip {
						bad = "the line break at " + b.posOf(ci) + " is not written with Indent's own prefix and indent arguments"
					}
				}
			}
			if bad != "" {
				l.add("R-DRIVER", "codec", key, b.rel(nl.Pos()), Violated, bad, true)
			} else {
				l.add("R-DRIVER", "codec", key, b.rel(nl.Pos()), Discharged, fmt.Sprintf("%s writes '\\n', %s, then %s once per i in [0,%s); every call passes Indent's prefix and indent", fname(nl), prefixP.Name(), indentP.Name(), depthP.Name()), true)
			}
		}
	}

	// eof's shape
	if eof := b.method(sp, "scanner", "eof"); eof == nil {
		l.add("R-DRIVER", "codec", "anchor eof", "", Undecided, "(*scanner).eof not found", false)
	} else {
		key := "eof: error if already failed, end if the top-level value is complete, otherwise feed one space and re-check"
		bad := ""
		calls := stepCalls(eof)
		if len(calls) != 1 {
			bad = fmt.Sprintf("%d step calls in eof", len(calls))
		} else {
			call := calls[0]
			if k, ok := intConst(call.Call.Args[1]); !ok || k != ' ' {
				bad = "eof does not feed the space character to the current state"
			}
			if call.Call.Args[0] != ssa.Value(eof.Params[0]) {
				bad = "eof steps a different scanner"
			}
		}
		for _, r := range liveReturns(eof) {
			k, ok := intConst(r.Results[0])
			if !ok {
				bad = "eof returns a non-constant"
				continue
			}
			switch k {
			case scanEnd:
				// every path to this return takes an endTop == true edge, with no step in between
				type st struct {
					bb   *ssa.BasicBlock
					know bool
				}
				seen := map[st]bool{}
				okAll := true
				var walk func(bb *ssa.BasicBlock, know bool)
				walk = func(bb *ssa.BasicBlock, know bool) {
					if seen[st{bb, know}] || !okAll {
						return
					}
					seen[st{bb, know}] = true
					for _, ins := range bb.Instrs {
						if c, isCall := ins.(*ssa.Call); isCall {
							for _, sc := range calls {
								if sc == c {
									know = false
								}
							}
						}
					}
					if bb == r.Block() {
						if !know {
							okAll = false
						}
						return
					}
					iff, isIf := lastInstr(bb).(*ssa.If)
					for si, sx := range bb.Succs {
						k2 := know
						if isIf {
							cv, neg := stripNot(iff.Cond)
							if _, fr, ok := fieldLoad(cv); ok && fr.Field == "endTop" {
								trueSucc := 0
								if neg {
									trueSucc = 1
								}
								k2 = si == trueSucc
							}
						}
						walk(sx, k2)
					}
				}
				walk(eof.Blocks[0], false)
				if !okAll {
					bad = "eof reports success without endTop being set"
				}
			case scanError:
			default:
				bad = fmt.Sprintf("eof returns opcode %d", k)
			}
		}
		// the first test is err != nil -> scanError
		if len(eof.Blocks) > 0 {
			if iff, ok := eof.Blocks[0].Instrs[len(eof.Blocks[0].Instrs)-1].(*ssa.If); ok {
				x, nnTrue, ok := nilTestOfCond(iff.Cond)
				_, fr, isF := fieldLoad(x)
				if !ok || !isF || fr.Field != "err" {
					bad = "eof does not start by checking the recorded error"
				} else {
					s := 1
					if nnTrue {
						s = 0
					}
					nb := eof.Blocks[0].Succs[s]
					if r, ok := nb.Instrs[len(nb.Instrs)-1].(*ssa.Return); !ok {
						bad = "eof does not return at once when an error was recorded"
					} else if k, ok := intConst(r.Results[0]); !ok || k != scanError {
						bad = "eof does not report scanError when an error was recorded"
					}
				}
			}
		}
		if bad != "" {
			l.add("R-DRIVER", "codec", key, b.rel(eof.Pos()), Violated, bad, true)
		} else {
			l.add("R-DRIVER", "codec", key, b.rel(eof.Pos()), Discharged, "err != nil → scanError; endTop → scanEnd; step(s, ' '); endTop → scanEnd; else scanError", true)
		}
	}
	// Valid and the checking Unmarshal entry points
	if v := fnOf(sp, "Valid"); v != nil {
		key := "Valid(data) is checkValid(data, …) == nil"
		ok := false
		other := ""
		for _, r := range liveReturns(v) {
			rv := retVal(r, 0)
			is := false
			if bo, isBo := rv.(*ssa.BinOp); isBo && bo.Op == token.EQL && isNilConst(bo.Y) {
				if call, isCall := bo.X.(*ssa.Call); isCall {
					if f := call.Call.StaticCallee(); f != nil && f.Name() == "checkValid" && call.Call.Args[0] == ssa.Value(v.Params[0]) {
						ok, is = true, true
					}
				}
			}
			// the empty text is no JSON text: `false` for len(data) == 0, decided by nothing else,
			// says what the scanner would say
			if k, isK := boolConst(rv); !is && isK && !k {
				deps := b.controlDeps(r.Block())
				emptyOnly := len(deps) > 0
				for _, e := range deps {
					iff, isIf := lastInstr(e.From).(*ssa.If)
					if !isIf {
						emptyOnly = false
						continue
					}
					c0, neg := stripNot(iff.Cond)
					bo, isBo := c0.(*ssa.BinOp)
					if !isBo || bo.Op != token.EQL && bo.Op != token.NEQ {
						emptyOnly = false
						continue
					}
					z, isZ := intConst(bo.Y)
					lc, isLen := bo.X.(*ssa.Call)
					if !isZ || z != 0 || !isLen || len(lc.Call.Args) != 1 || lc.Call.Args[0] != ssa.Value(v.Params[0]) {
						emptyOnly = false
						continue
					}
					if bi, isB := lc.Call.Value.(*ssa.Builtin); !isB || bi.Name() != "len" {
						emptyOnly = false
						continue
					}
					// the edge taken is the "length is zero" one
					zeroSucc := 0
					if (bo.Op == token.NEQ) != neg {
						zeroSucc = 1
					}
					if e.Succ != zeroSucc {
						emptyOnly = false
					}
				}
				if emptyOnly {
					is = true
				}
			}
			if !is {
				other = b.posOf(r)
			}
		}
		v2, why := Discharged, "return checkValid(data, scan) == nil, on the function's own parameter"
		if !ok {
			v2, why = Violated, "Valid's result is not `checkValid(data, …) == nil` on its own parameter"
		} else if other != "" {
			v2, why = Violated, "Valid also answers at "+other+" with something other than the scanner's verdict: a text the grammar accepts can be refused (or one it refuses accepted) by a second opinion in front of the scanner"
		}
		l.add("R-DRIVER", "codec", key, b.rel(v.Pos()), v2, why, true)
	}
	for _, name := range []string{"Unmarshal", "UnmarshalWithKeys"} {
		fn := fnOf(sp, name)
		if fn == nil {
			continue
		}
		key := name + ": returns checkValid's error before the decoder is initialised"
		var cv, initCall *ssa.Call
		allInstrs(fn, func(i ssa.Instruction) {
			if ci, ok := i.(*ssa.Call); ok {
				if f := ci.Call.StaticCallee(); f != nil && f.Name() == "checkValid" {
					cv = ci
				}
			}
		})
		// the call that hands the input on to (*decodeState).init: init itself or a codec helper
		for _, ci := range b.initSites(fn, fn.Params[0]) {
			if c2, ok := ci.(*ssa.Call); ok {
				initCall = c2
			}
		}
		if cv == nil || initCall == nil {
			l.add("R-DRIVER", "codec", key, b.rel(fn.Pos()), Violated, "the checking entry point does not call checkValid before init", true)
			continue
		}
		ok, why := b.successDominates(cv, initCall)
		if cv.Call.Args[0] != ssa.Value(fn.Params[0]) {
			ok, why = false, "checkValid and init are not applied to the same input parameter"
		}
		v2 := Discharged
		if !ok {
			v2 = Violated
		}
		l.add("R-DRIVER", "codec", key, b.posOf(cv), v2, why, true)
	}
}

// errEdgeReturnsScanErr: every path from bb reaches a return whose error result is non-constant-nil.
func (b *Body) errEdgeReturnsScanErr(bb *ssa.BasicBlock) bool {
	seen := map[*ssa.BasicBlock]bool{}
	ok := true
	var walk func(x *ssa.BasicBlock, d int)
	walk = func(x *ssa.BasicBlock, d int) {
		if seen[x] || d > 8 {
			return
		}
		seen[x] = true
		if r, isRet := x.Instrs[len(x.Instrs)-1].(*ssa.Return); isRet {
			ei := errResultIndex(x.Parent())
			if ei < 0 || isNilConst(retVal(r, ei)) {
				ok = false
			}
			return
		}
		for _, s := range x.Succs {
			walk(s, d+1)
		}
	}
	walk(bb, 0)
	return ok
}

func scIsArith(op token.Token) bool {
	switch op {
	case token.OR, token.AND, token.XOR, token.AND_NOT, token.ADD, token.SUB, token.SHL, token.SHR:
		return true
	}
	return false
}

// scArith applies a byte operation with a constant to the value table (uint8 arithmetic).
func scArith(tbl *[256]int64, op token.Token, k int64, byteLeft bool) *[256]int64 {
	var out [256]int64
	for c := 0; c < 256; c++ {
		v := int64(c)
		if tbl != nil {
			v = tbl[c]
		}
		l, r := v, k
		if !byteLeft {
			l, r = k, v
		}
		var res int64
		switch op {
		case token.OR:
			res = l | r
		case token.AND:
			res = l & r
		case token.XOR:
			res = l ^ r
		case token.AND_NOT:
			res = l &^ r
		case token.ADD:
			res = l + r
		case token.SUB:
			res = l - r
		case token.SHL:
			res = l << uint(r&63)
		case token.SHR:
			res = l >> uint(r&63)
		}
		out[c] = res & 0xff
	}
	return &out
}

func scCmpSetTbl(tbl *[256]int64, op token.Token, k int64, byteLeft bool) bset {
	if tbl == nil {
		return scCmpSet(op, k, byteLeft)
	}
	var s bset
	for c := 0; c < 256; c++ {
		l, r := tbl[c], k
		if !byteLeft {
			l, r = k, tbl[c]
		}
		var t bool
		switch op {
		case token.EQL:
			t = l == r
		case token.NEQ:
			t = l != r
		case token.LSS:
			t = l < r
		case token.LEQ:
			t = l <= r
		case token.GTR:
			t = l > r
		case token.GEQ:
			t = l >= r
		default:
			panic("cmp op " + op.String())
		}
		if t {
			s.add(c)
		}
	}
	return s
}

// scanOpcodes: name -> value of the scanner's opcode constants, read from the
// analysed package by the rule before the product runs (nil = not checked).
var scanOpcodes map[string]int64

// refOpcode: the event the scanner documents for reading byte c in reference
// state s (top = enclosing container, depth = nesting class), given the
// reference transition t. Written from the comments on the scan* constants,
// not from the state functions.
func refOpcode(s rstate, top byte, depth int, c byte, t rtrans) string {
	switch {
	case t.push == 'O':
		return "scanBeginObject"
	case t.push == 'A':
		return "scanBeginArray"
	case t.pop && c == '}':
		return "scanEndObject"
	case t.pop && c == ']':
		return "scanEndArray"
	}
	structural := s == rV || s == rVE || s == rKE || s == rK || s == rColon || s == rAfter
	endsNumber := s == nZero || s == nInt || s == nFrac || s == nExp
	if isWS(c) && (structural || endsNumber) {
		if depth == 0 && (s == rAfter || endsNumber) {
			return "scanEnd" // the top-level value is complete
		}
		return "scanSkipSpace"
	}
	if (s == rV || s == rVE || s == rKE || s == rK) && t.next != rDead {
		return "scanBeginLiteral" // start of a string, number or literal name
	}
	if s == rColon && c == ':' {
		return "scanObjectKey"
	}
	if (s == rAfter || endsNumber) && c == ',' {
		if top == 'O' {
			return "scanObjectValue"
		}
		return "scanArrayValue"
	}
	return "scanContinue"
}

// straightToNextIteration: from block s the loop with header h starts its next iteration and
// nothing else happens on the way: s is the header, or a chain of blocks that hold only the
// loop's own counter update (values used by nothing but phis of the header) and jumps.
func straightToNextIteration(s, h *ssa.BasicBlock) bool {
	for steps := 0; steps < 4; steps++ {
		if s == h {
			return true
		}
		if len(s.Succs) != 1 {
			return false
		}
		for _, ins := range s.Instrs {
			switch x := ins.(type) {
			case *ssa.Jump, *ssa.DebugRef:
			case *ssa.Phi:
				// a merge of loop-carried values in the post block: it computes nothing
				for _, r := range *x.Referrers() {
					if p, ok := r.(*ssa.Phi); !ok || p.Block() != h {
						if _, isDbg := r.(*ssa.DebugRef); !isDbg {
							return false
						}
					}
				}
			case *ssa.BinOp:
				for _, r := range *x.Referrers() {
					if p, ok := r.(*ssa.Phi); !ok || p.Block() != h {
						if _, isDbg := r.(*ssa.DebugRef); !isDbg {
							return false
						}
					}
				}
			default:
				return false
			}
		}
		s = s.Succs[0]
	}
	return false
}

// cursorDrivers (R-DRIVER): the validity-assuming decoder walks its input with a cursor of its
// own (skip, scanWhile, scanNext) and keeps the scanner in step with it. The cursor moves
// forward only over a byte that was shown to the scanner: every `index + constant` in such a
// function is `i + 1` in the block of a step call whose byte is data[i] (the end-of-input mark
// len(data)+1 aside). A shortcut that jumps to the closing quote of a string by looking for
// an unescaped quote moves the cursor past bytes the scanner never saw — and past the quote
// itself when the string ends in an escaped backslash: the decoder then reads outside the
// value it was promised is well-formed.
func (b *Body) cursorDrivers(l *Ledger, sp *ssa.Package) {
	for _, fn := range b.srcFuncs(sp) {
		if recvTypeName(fn) != "decodeState" || fn.Parent() != nil {
			continue
		}
		calls := stepCalls(fn)
		if len(calls) == 0 {
			// the three cursor functions of the inherited decoder keep the scanner in step by
			// definition; one of them that no longer calls the scanner skips by a reckoning of
			// its own (counting brackets and quotes), which the scanner is not bound by
			switch fn.Name() {
			case "skip", "scanWhile", "scanNext":
				l.add("R-DRIVER", "codec", fmt.Sprintf("cursor %s: moves forward only over a byte shown to the scanner", fname(fn)), b.rel(fn.Pos()), Violated, "the function moves the decoder's position without calling the scanner's step function at all: where a value ends is decided by a reckoning of its own, which need not agree with the scanner on strings, escapes and nesting", true)
			}
			continue
		}
		key := fmt.Sprintf("cursor %s: moves forward only over a byte shown to the scanner", fname(fn))
		bad := ""
		n := 0
		allInstrs(fn, func(i ssa.Instruction) {
			bo, ok := i.(*ssa.BinOp)
			if !ok || bo.Op != token.ADD {
				return
			}
			var idx ssa.Value
			var k int64
			if c, isK := intConst(bo.Y); isK {
				idx, k = bo.X, c
			} else if c, isK := intConst(bo.X); isK {
				idx, k = bo.Y, c
			} else {
				return
			}
			if bt, isB := idx.Type().Underlying().(*types.Basic); !isB || bt.Kind() != types.Int {
				return
			}
			if lengthDerived(idx) {
				return // len(data) + 1: the mark for "end of input processed"
			}
			n++
			shown := false
			for _, c := range calls {
				if c.Block() != bo.Block() || len(c.Call.Args) < 2 {
					continue
				}
				if ld, ok := c.Call.Args[1].(*ssa.UnOp); ok {
					if ia, ok := ld.X.(*ssa.IndexAddr); ok && sameCollection(ia.Index, idx) {
						shown = true
					}
				}
			}
			switch {
			case k != 1:
				bad = fmt.Sprintf("the cursor is moved by %d at %s", k, b.posOf(bo))
			case !shown:
				bad = "the cursor is moved at " + b.posOf(bo) + " over a byte that is not handed to the scanner's step function in the same step: the scanner and the decoder's position go apart, on a text the decoder does not check again"
			}
		})
		if bad != "" {
			l.add("R-DRIVER", "codec", key, b.rel(fn.Pos()), Violated, bad, true)
		} else if n > 0 {
			l.add("R-DRIVER", "codec", key, b.rel(fn.Pos()), Discharged, fmt.Sprintf("%d advance(s) of the cursor, each by one, each in the block of step(scan, data[i]) for the same i", n), true)
		}
	}
}

// globalStoresOutsideInit: element or whole stores into g anywhere but the package initialiser.
func (b *Body) globalStoresOutsideInit(g *ssa.Global) []ssa.Instruction {
	var out []ssa.Instruction
	for _, fn := range b.srcFuncs(g.Pkg) {
		if fn.Name() == "init" && fn.Parent() == nil {
			continue
		}
		allInstrs(fn, func(i ssa.Instruction) {
			st, ok := i.(*ssa.Store)
			if !ok {
				return
			}
			if st.Addr == ssa.Value(g) {
				out = append(out, st)
			}
			if ia, ok := st.Addr.(*ssa.IndexAddr); ok && ia.X == ssa.Value(g) {
				out = append(out, st)
			}
		})
	}
	return out
}
