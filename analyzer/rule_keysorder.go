package main

// R-KEYS, "the member list is never reordered": an object's key list is grown at its end,
// spliced (one element dropped, the rest shifted left), or replaced by what the decoder
// reports. No element of it is ever moved: the list, or a piece of it, is handed to no
// function outside the library (sort.Strings, sort.Slice, slices.Sort …), no element is
// assigned in place, and nothing is copied into it except the left shift of a splice.
// "Surviving members keep their relative order" (C05) is this fact; a sort over the members
// a merge has just appended would already move a surviving member when the count is off.

import (
	"fmt"
	"go/token"

	"golang.org/x/tools/go/ssa"
)

func (b *Body) keysNeverReordered(l *Ledger) {
	// values that denote the key list of some object, or a piece of it
	// parameters of library functions that some call hands a key list (found by iteration:
	// a helper that sorts "two name lists" is judged on the lists it is actually given)
	keysParams := map[*ssa.Parameter]bool{}
	keysDerived := func(v ssa.Value) bool {
		for d := 0; d < 6; d++ {
			if _, ok := pdLoad(v, "keys"); ok {
				return true
			}
			if p, ok := v.(*ssa.Parameter); ok && keysParams[p] {
				return true
			}
			sl, ok := v.(*ssa.Slice)
			if !ok {
				return false
			}
			v = sl.X
		}
		return false
	}
	for changed, round := true, 0; changed && round < 5; round++ {
		changed = false
		for _, fn := range b.srcFuncs(b.Lib) {
			allInstrs(fn, func(i ssa.Instruction) {
				ci, ok := i.(ssa.CallInstruction)
				if !ok {
					return
				}
				g := ci.Common().StaticCallee()
				if g == nil || g.Pkg != b.Lib || len(g.Blocks) == 0 {
					return
				}
				for ai, a := range ci.Common().Args {
					if ai < len(g.Params) && !keysParams[g.Params[ai]] && keysDerived(a) {
						keysParams[g.Params[ai]] = true
						changed = true
					}
				}
			})
		}
	}
	isShift := func(dst, src ssa.Value) bool {
		// dst = keys[i:…], src = keys[i+1:…]
		ds, ok1 := dst.(*ssa.Slice)
		ss, ok2 := src.(*ssa.Slice)
		if !ok1 || !ok2 || ss.Low == nil {
			return false
		}
		bo, ok := ss.Low.(*ssa.BinOp)
		if !ok || bo.Op != token.ADD {
			return false
		}
		one, isOne := intConst(bo.Y)
		if !isOne || one != 1 {
			return false
		}
		// append(keys[0:i], keys[i+1:]...): dst.High == i ; copy(keys[i:], keys[i+1:]): dst.Low == i
		return ds.High == bo.X || ds.Low == bo.X
	}
	sites := 0
	for _, fn := range b.srcFuncs(b.Lib) {
		n := 0
		allInstrs(fn, func(i ssa.Instruction) {
			switch x := i.(type) {
			case *ssa.Store:
				ia, ok := x.Addr.(*ssa.IndexAddr)
				if ok && keysDerived(ia.X) {
					n++
					sites++
					l.add("R-KEYS", "v5", fmt.Sprintf("%s: key list write #%d does not move a member", fname(fn), n), b.posOf(x), Violated, "an element of the key list is assigned in place: members change places (or names) in every later output", true)
				}
			case *ssa.Call:
				cc := &x.Call
				if bi, ok := cc.Value.(*ssa.Builtin); ok {
					switch bi.Name() {
					case "copy":
						if keysDerived(cc.Args[0]) {
							n++
							sites++
							key := fmt.Sprintf("%s: key list write #%d does not move a member", fname(fn), n)
							if keysDerived(cc.Args[1]) && isShift(cc.Args[0], cc.Args[1]) {
								l.add("R-KEYS", "v5", key, b.posOf(x), Discharged, "copy(keys[i:], keys[i+1:]): the left shift of a splice keeps the order of the remaining members", true)
							} else {
								l.add("R-KEYS", "v5", key, b.posOf(x), Violated, "something other than the left shift of a splice is copied into the key list", true)
							}
						}
					case "append":
						if len(cc.Args) == 2 && keysDerived(cc.Args[0]) {
							if _, isSl := cc.Args[0].(*ssa.Slice); isSl {
								n++
								sites++
								key := fmt.Sprintf("%s: key list write #%d does not move a member", fname(fn), n)
								if keysDerived(cc.Args[1]) && isShift(cc.Args[0], cc.Args[1]) {
									l.add("R-KEYS", "v5", key, b.posOf(x), Discharged, "append(keys[:i], keys[i+1:]...): a splice keeps the order of the remaining members", true)
								} else {
									l.add("R-KEYS", "v5", key, b.posOf(x), Violated, "the key list is cut and something other than its own tail is put behind the cut", true)
								}
							}
						}
					}
					return
				}
				for _, a := range cc.Args {
					if !keysDerived(a) {
						continue
					}
					f := cc.StaticCallee()
					if f != nil && f.Pkg == b.Lib {
						continue // a library function: its own writes are judged where they are
					}
					if f != nil && readOnlyStd[stdName(f)] {
						continue // reads the slice, never writes it
					}
					n++
					sites++
					l.add("R-KEYS", "v5", fmt.Sprintf("%s: key list write #%d does not move a member", fname(fn), n), b.posOf(x), Violated, "the key list (or a piece of it) is handed to "+calleeLabel(cc)+": a function outside the library that receives the slice can reorder it in place — sorting the members a merge appended moves surviving members as soon as the window is off by one", true)
				}
			}
		})
	}
	l.add("R-KEYS", "v5", "key lists are grown, spliced or replaced by the decoder's — never reordered", "", Discharged, fmt.Sprintf("%d in-place write(s) / outside call(s) on key lists examined one by one", sites), true)
}

// standard-library functions that only read a slice they are given
var readOnlyStd = map[string]bool{
	"slices.Contains": true, "slices.Index": true, "slices.Equal": true, "slices.Clone": true, "slices.IndexFunc": true, "slices.ContainsFunc": true,
	"strings.Join": true, "sort.SearchStrings": true, "sort.StringsAreSorted": true,
	"fmt.Sprintf": true, "fmt.Errorf": true, "fmt.Sprint": true, "fmt.Sprintln": true,
}
