package main

// Shared SSA helpers: instruction order, dominance between instructions,
// post-dominators, branch-edge facts, callee resolution, constants.

import (
	"go/constant"
	"go/token"
	"go/types"
	"sort"
	"strings"

	"golang.org/x/tools/go/ssa"
)

func (b *Body) idx(i ssa.Instruction) int {
	if n, ok := b.idxCache[i]; ok {
		return n
	}
	for n, x := range i.Block().Instrs {
		b.idxCache[x] = n
	}
	return b.idxCache[i]
}

// instrDominates: a executes before b on every path from entry to b.
func (b *Body) instrDominates(a, c ssa.Instruction) bool {
	if a.Block() == c.Block() {
		return b.idx(a) < b.idx(c)
	}
	return a.Block().Dominates(c.Block())
}

// ---- post-dominators --------------------------------------------------------

type postDom struct {
	fn    *ssa.Function
	ipdom map[*ssa.BasicBlock]*ssa.BasicBlock // nil for exit-reaching roots
	exits []*ssa.BasicBlock
	order map[*ssa.BasicBlock]int
}

// isExitBlock: block ends in Return or Panic (or has no successors).
func isExitBlock(bb *ssa.BasicBlock) bool { return len(bb.Succs) == 0 }

// postDominators computes immediate post-dominators with the iterative
// algorithm over the reverse CFG, using a virtual exit joined to all exit
// blocks. Blocks from which no exit is reachable (infinite loops) have no
// post-dominator and are reported as such (ipdom missing).
func (b *Body) postDominators(fn *ssa.Function) *postDom {
	if pd, ok := b.pdomCache[fn]; ok {
		return pd
	}
	pd := &postDom{fn: fn, ipdom: map[*ssa.BasicBlock]*ssa.BasicBlock{}, order: map[*ssa.BasicBlock]int{}}
	for _, bb := range fn.Blocks {
		if isExitBlock(bb) {
			pd.exits = append(pd.exits, bb)
		}
	}
	// post-order DFS over the reverse CFG from the virtual exit
	visited := map[*ssa.BasicBlock]bool{}
	var post []*ssa.BasicBlock
	var dfs func(bb *ssa.BasicBlock)
	dfs = func(bb *ssa.BasicBlock) {
		visited[bb] = true
		for _, p := range bb.Preds {
			if !visited[p] {
				dfs(p)
			}
		}
		post = append(post, bb)
	}
	for _, e := range pd.exits {
		if !visited[e] {
			dfs(e)
		}
	}
	n := len(post)
	nodes := make([]*ssa.BasicBlock, n+1) // nodes[0] = virtual exit
	for i, bb := range post {
		nodes[n-i] = bb
		pd.order[bb] = n - i
	}
	idom := make([]int, n+1)
	for i := range idom {
		idom[i] = -1
	}
	idom[0] = 0
	intersect := func(f1, f2 int) int {
		for f1 != f2 {
			for f1 > f2 {
				f1 = idom[f1]
			}
			for f2 > f1 {
				f2 = idom[f2]
			}
		}
		return f1
	}
	for changed := true; changed; {
		changed = false
		for i := 1; i <= n; i++ {
			bb := nodes[i]
			newIdom := -1
			if isExitBlock(bb) {
				newIdom = 0
			}
			for _, s := range bb.Succs {
				si, ok := pd.order[s]
				if !ok || idom[si] == -1 {
					continue
				}
				if newIdom == -1 {
					newIdom = si
				} else {
					newIdom = intersect(newIdom, si)
				}
			}
			if newIdom != -1 && idom[i] != newIdom {
				idom[i] = newIdom
				changed = true
			}
		}
	}
	for i := 1; i <= n; i++ {
		if idom[i] == -1 {
			continue
		}
		pd.ipdom[nodes[i]] = nodes[idom[i]] // nil when the virtual exit
	}
	b.pdomCache[fn] = pd
	return pd
}

// postDominates: every path from a to an exit passes through c (a != c), or a == c.
func (pd *postDom) postDominates(c, a *ssa.BasicBlock) bool {
	for x := a; x != nil; {
		if x == c {
			return true
		}
		nx, ok := pd.ipdom[x]
		if !ok {
			return false
		}
		x = nx
	}
	return false
}

// controlDeps returns the set of (branch block, successor index) on which
// block bb is control dependent: bb post-dominates succ but not the branch.
type edge struct {
	From *ssa.BasicBlock
	Succ int
}

func (b *Body) controlDeps(bb *ssa.BasicBlock) []edge {
	fn := bb.Parent()
	pd := b.postDominators(fn)
	var out []edge
	for _, br := range fn.Blocks {
		if len(br.Succs) < 2 {
			continue
		}
		for si, s := range br.Succs {
			if pd.postDominates(bb, s) && !(br != bb && pd.postDominates(bb, br)) {
				out = append(out, edge{br, si})
			}
		}
	}
	return out
}

// transitive control dependence closure: all branch edges that bb is
// (transitively) control dependent on.
func (b *Body) controlDepsTransitive(bb *ssa.BasicBlock) []edge {
	seen := map[edge]bool{}
	seenB := map[*ssa.BasicBlock]bool{bb: true}
	work := []*ssa.BasicBlock{bb}
	var out []edge
	for len(work) > 0 {
		x := work[len(work)-1]
		work = work[:len(work)-1]
		for _, e := range b.controlDeps(x) {
			if !seen[e] {
				seen[e] = true
				out = append(out, e)
				if !seenB[e.From] {
					seenB[e.From] = true
					work = append(work, e.From)
				}
			}
		}
	}
	return out
}

// ---- edge reasoning ----------------------------------------------------------

// edgeDominates: every path from entry to target passes through the CFG edge
// from->from.Succs[succ].
func edgeDominates(from *ssa.BasicBlock, succ int, target *ssa.BasicBlock) bool {
	s := from.Succs[succ]
	if !s.Dominates(target) {
		return false
	}
	// s must be entered only via this edge, or every other predecessor of s is
	// dominated by s itself (back edges).
	for _, p := range s.Preds {
		if p == from {
			// the same block may reach s through both successors
			cnt := 0
			for _, x := range from.Succs {
				if x == s {
					cnt++
				}
			}
			if cnt > 1 {
				return false
			}
			continue
		}
		if !s.Dominates(p) {
			return false
		}
	}
	return true
}

// condition atoms --------------------------------------------------------------

// stripNot peels boolean negations.
func stripNot(v ssa.Value) (ssa.Value, bool) {
	neg := false
	for {
		u, ok := v.(*ssa.UnOp)
		if !ok || u.Op != token.NOT {
			return v, neg
		}
		v = u.X
		neg = !neg
	}
}

// An edgeFact is a boolean SSA value known to be true or false on an edge.
type edgeFact struct {
	V    ssa.Value
	True bool
}

// factsOnEdge returns the atomic facts implied by taking successor si out of
// block bb (which must end in an If). Boolean phis produced by && / || are
// handled by the callers through dominance over the constituent blocks.
func factsOnEdge(bb *ssa.BasicBlock, si int) []edgeFact {
	iff, ok := bb.Instrs[len(bb.Instrs)-1].(*ssa.If)
	if !ok {
		return nil
	}
	return condAtoms(iff.Cond, si == 0, 0)
}

// condAtoms: the atomic facts implied by cond having the given outcome. A
// negation flips the outcome; a boolean phi that go/ssa built for `a && b`
// (constant false on the edge from a's block) yields the atoms of both when
// the outcome is true, one built for `a || b` those of both negations when it
// is false; in the other two cases only the phi itself is known.
func condAtoms(cond ssa.Value, outcome bool, depth int) []edgeFact {
	c, neg := stripNot(cond)
	if neg {
		outcome = !outcome
	}
	out := []edgeFact{{c, outcome}}
	phi, ok := c.(*ssa.Phi)
	if !ok || depth > 4 {
		return out
	}
	if len(phi.Edges) > 2 {
		// a && b && c … (every edge but one the constant false) known true, or
		// a || b || c … (every edge but one the constant true) known false: the value came
		// in over the one computed edge, whose block lies behind the other operands
		nonConst := -1
		allK := true
		want := !outcome // the constant on the short-circuit edges
		for i, e := range phi.Edges {
			k, isK := boolConst(e)
			if !isK {
				if nonConst >= 0 {
					allK = false
				}
				nonConst = i
				continue
			}
			if k != want {
				allK = false
			}
		}
		if !allK || nonConst < 0 {
			return out
		}
		q := phi.Block().Preds[nonConst]
		out = append(out, condAtoms(phi.Edges[nonConst], outcome, depth+1)...)
		for i := range phi.Edges {
			if i == nonConst {
				continue
			}
			p := phi.Block().Preds[i]
			piff, ok := p.Instrs[len(p.Instrs)-1].(*ssa.If)
			if !ok {
				continue
			}
			for si, sx := range p.Succs {
				if sx == phi.Block() {
					continue
				}
				if sx == q || edgeDominates(p, si, q) {
					out = append(out, condAtoms(piff.Cond, si == 0, depth+1)...)
				}
			}
		}
		return out
	}
	if len(phi.Edges) != 2 {
		return out
	}
	for i, e := range phi.Edges {
		k, isK := boolConst(e)
		if !isK {
			continue
		}
		p := phi.Block().Preds[i]
		piff, ok := p.Instrs[len(p.Instrs)-1].(*ssa.If)
		if !ok {
			continue
		}
		other := phi.Edges[1-i]
		if !k && outcome {
			out = append(out, condAtoms(piff.Cond, true, depth+1)...)
			out = append(out, condAtoms(other, true, depth+1)...)
		}
		if k && !outcome {
			out = append(out, condAtoms(piff.Cond, false, depth+1)...)
			out = append(out, condAtoms(other, false, depth+1)...)
		}
	}
	return out
}

// dominatingFacts collects every atomic boolean fact that holds whenever
// control reaches block target (facts from edges that dominate target).
func dominatingFacts(target *ssa.BasicBlock) []edgeFact {
	var out []edgeFact
	fn := target.Parent()
	for _, bb := range fn.Blocks {
		if len(bb.Succs) != 2 {
			continue
		}
		if _, ok := bb.Instrs[len(bb.Instrs)-1].(*ssa.If); !ok {
			continue
		}
		for si := range bb.Succs {
			if edgeDominates(bb, si, target) {
				out = append(out, factsOnEdge(bb, si)...)
			}
		}
	}
	return out
}

// ---- callee resolution -------------------------------------------------------

// callees resolves a call to the repo functions it may invoke: the static
// callee, or for an interface method call every implementation among the
// named types of the repo packages of this body (CHA restricted to the
// repo). Calls through function values return nil (callers decide).
func (b *Body) callees(c *ssa.CallCommon) []*ssa.Function {
	if f := c.StaticCallee(); f != nil {
		return []*ssa.Function{f}
	}
	if c.IsInvoke() {
		return b.implementations(c.Value.Type(), c.Method)
	}
	return nil
}

func (b *Body) implementations(iface types.Type, m *types.Func) []*ssa.Function {
	key := types.TypeString(iface, nil) + "." + m.Name()
	if r, ok := b.implCache[key]; ok {
		return r
	}
	it, ok := iface.Underlying().(*types.Interface)
	if !ok {
		return nil
	}
	var out []*ssa.Function
	for _, sp := range []*ssa.Package{b.Lib, b.Codec, b.Cmd} {
		if sp == nil {
			continue
		}
		var names []string
		for n := range sp.Members {
			names = append(names, n)
		}
		sort.Strings(names)
		for _, n := range names {
			t, ok := sp.Members[n].(*ssa.Type)
			if !ok {
				continue
			}
			if _, isIface := t.Type().Underlying().(*types.Interface); isIface {
				continue
			}
			for _, typ := range []types.Type{t.Type(), types.NewPointer(t.Type())} {
				if types.Implements(typ, it) {
					sel := b.Prog.MethodSets.MethodSet(typ).Lookup(m.Pkg(), m.Name())
					if sel != nil {
						if f := b.Prog.MethodValue(sel); f != nil {
							// prefer the declared (non-wrapper) method
							if f.Synthetic != "" {
								// wrapper for value method via pointer; find underlying
								if decl := b.Prog.FuncValue(sel.Obj().(*types.Func)); decl != nil {
									f = decl
								}
							}
							dup := false
							for _, o := range out {
								if o == f {
									dup = true
								}
							}
							if !dup {
								out = append(out, f)
							}
						}
					}
					break
				}
			}
		}
	}
	b.implCache[key] = out
	return out
}

// calleeIs reports whether the call's static callee is the function
// pkgpath.name (for package functions) — resolved through types, not text.
func staticCalleeIs(c *ssa.CallCommon, pkgPath, name string) bool {
	f := c.StaticCallee()
	if f == nil {
		return false
	}
	return funcIs(f, pkgPath, name)
}

func funcIs(f *ssa.Function, pkgPath, name string) bool {
	if f == nil || f.Name() != name {
		return false
	}
	if f.Signature.Recv() != nil {
		return false
	}
	obj := f.Object()
	if obj == nil || obj.Pkg() == nil {
		return false
	}
	return obj.Pkg().Path() == pkgPath
}

// methodIs: f is method name on (pointer to) named type pkgPath.typeName.
func methodIs(f *ssa.Function, pkgPath, typeName, name string) bool {
	if f == nil || f.Name() != name {
		return false
	}
	recv := f.Signature.Recv()
	if recv == nil {
		return false
	}
	t := recv.Type()
	if p, ok := t.(*types.Pointer); ok {
		t = p.Elem()
	}
	n, ok := t.(*types.Named)
	if !ok {
		return false
	}
	if n.Obj().Name() != typeName {
		return false
	}
	if n.Obj().Pkg() == nil {
		return pkgPath == ""
	}
	return n.Obj().Pkg().Path() == pkgPath
}

// recvTypeName returns the name of the receiver's named type ("" if none).
func recvTypeName(f *ssa.Function) string {
	recv := f.Signature.Recv()
	if recv == nil {
		return ""
	}
	t := recv.Type()
	if p, ok := t.(*types.Pointer); ok {
		t = p.Elem()
	}
	if n, ok := t.(*types.Named); ok {
		return n.Obj().Name()
	}
	return ""
}

// ---- constants ---------------------------------------------------------------

func strConst(v ssa.Value) (string, bool) {
	c, ok := v.(*ssa.Const)
	if !ok || c.Value == nil || c.Value.Kind() != constant.String {
		return "", false
	}
	return constant.StringVal(c.Value), true
}

func intConst(v ssa.Value) (int64, bool) {
	c, ok := v.(*ssa.Const)
	if !ok || c.Value == nil {
		return 0, false
	}
	if c.Value.Kind() != constant.Int {
		return 0, false
	}
	n, exact := constant.Int64Val(c.Value)
	return n, exact
}

func boolConst(v ssa.Value) (bool, bool) {
	c, ok := v.(*ssa.Const)
	if !ok || c.Value == nil || c.Value.Kind() != constant.Bool {
		return false, false
	}
	return constant.BoolVal(c.Value), true
}

func isNilConst(v ssa.Value) bool {
	c, ok := v.(*ssa.Const)
	return ok && c.Value == nil
}

// unwrapConv peels ChangeType / Convert / MakeInterface / ChangeInterface.
func unwrapConv(v ssa.Value) ssa.Value {
	for {
		switch x := v.(type) {
		case *ssa.ChangeType:
			v = x.X
		case *ssa.Convert:
			v = x.X
		case *ssa.MakeInterface:
			v = x.X
		case *ssa.ChangeInterface:
			v = x.X
		default:
			return v
		}
	}
}

// namedTypeName returns "pkgname.Type" or "Type" for (pointers to) named types.
func typeShort(t types.Type) string {
	return types.TypeString(t, func(p *types.Package) string { return p.Name() })
}

func isPtrToNamed(t types.Type, name string) bool {
	p, ok := types.Unalias(t).(*types.Pointer)
	if !ok {
		return false
	}
	n, ok := types.Unalias(p.Elem()).(*types.Named)
	return ok && n.Obj().Name() == name
}

func isNamed(t types.Type, name string) bool {
	n, ok := types.Unalias(t).(*types.Named)
	return ok && n.Obj().Name() == name
}

func derefNamed(t types.Type) *types.Named {
	if p, ok := types.Unalias(t).(*types.Pointer); ok {
		t = p.Elem()
	}
	n, _ := types.Unalias(t).(*types.Named)
	return n
}

// fieldName returns the name of field i of the struct pointed to / held by t.
func fieldName(t types.Type, i int) string {
	if p, ok := t.Underlying().(*types.Pointer); ok {
		t = p.Elem()
	}
	st, ok := t.Underlying().(*types.Struct)
	if !ok || i >= st.NumFields() {
		return "?"
	}
	if n, isNamed := t.(*types.Named); isNamed {
		if role := canonicalField(n.Obj().Name(), st, i); role != "" {
			return role
		}
	}
	return st.Field(i).Name()
}

// canonicalField: the rules speak of a handful of fields of the library's own types by the
// name they have today (which, raw, doc, ary; keys, obj, opts, self; nodes; the scanner's endTop,
// parseState, step, err). A rename must not matter, so such a field is recognised by its type
// where that type occurs exactly once in the struct; the name used in the rules is handed back.
func canonicalField(typeName string, st *types.Struct, i int) string {
	kindOf := func(t types.Type) string {
		switch u := t.Underlying().(type) {
		case *types.Basic:
			switch {
			case u.Info()&types.IsBoolean != 0:
				return "bool"
			case u.Info()&types.IsInteger != 0:
				if u.Kind() == types.Int64 {
					return "int64"
				}
				return "int"
			}
		case *types.Slice:
			if isStringType(u.Elem()) {
				return "[]string"
			}
			if isPtrToNamed(u.Elem(), "lazyNode") {
				return "[]*lazyNode"
			}
			if b, ok := u.Elem().Underlying().(*types.Basic); ok && b.Kind() == types.Int {
				return "[]int"
			}
		case *types.Map:
			return "map"
		case *types.Signature:
			return "func"
		case *types.Interface:
			if isErrorType(t) {
				return "error"
			}
		case *types.Pointer:
			if n := derefNamed(t); n != nil {
				return "*" + n.Obj().Name()
			}
		case *types.Struct:
			if n, ok := t.(*types.Named); ok {
				return n.Obj().Name()
			}
		}
		if n, ok := t.(*types.Named); ok {
			return n.Obj().Name()
		}
		return ""
	}
	var table map[string]string
	switch typeName {
	case "lazyNode":
		table = map[string]string{"int": "which", "*RawMessage": "raw", "*partialDoc": "doc", "partialDoc": "doc", "*partialArray": "ary", "partialArray": "ary"}
	case "partialDoc":
		table = map[string]string{"[]string": "keys", "map": "obj", "*ApplyOptions": "opts", "*lazyNode": "self"}
	case "partialArray":
		table = map[string]string{"[]*lazyNode": "nodes", "*lazyNode": "self"}
	case "scanner":
		table = map[string]string{"bool": "endTop", "[]int": "parseState", "func": "step", "error": "err"}
	default:
		return ""
	}
	k := kindOf(st.Field(i).Type())
	role, ok := table[k]
	if !ok {
		return ""
	}
	n := 0
	for j := 0; j < st.NumFields(); j++ {
		if kindOf(st.Field(j).Type()) == k {
			n++
		}
	}
	if n != 1 {
		return ""
	}
	return role
}

func allInstrs(fn *ssa.Function, f func(ssa.Instruction)) {
	for _, bb := range fn.Blocks {
		for _, ins := range bb.Instrs {
			f(ins)
		}
	}
}

// returnsOf lists the Return instructions of fn.
func returnsOf(fn *ssa.Function) []*ssa.Return {
	var out []*ssa.Return
	for _, bb := range fn.Blocks {
		if r, ok := bb.Instrs[len(bb.Instrs)-1].(*ssa.Return); ok {
			out = append(out, r)
		}
	}
	return out
}

func callsTo(fn *ssa.Function, pred func(*ssa.CallCommon) bool) []ssa.CallInstruction {
	var out []ssa.CallInstruction
	allInstrs(fn, func(i ssa.Instruction) {
		if ci, ok := i.(ssa.CallInstruction); ok && pred(ci.Common()) {
			out = append(out, ci)
		}
	})
	return out
}

func isErrorType(t types.Type) bool {
	return types.TypeString(t, nil) == "error"
}

func trimRepo(s, repo string) string { return strings.TrimPrefix(s, repo+"/") }

// ---- defer-spilled returns ----------------------------------------------------

// retVal resolves result i of return r through go/ssa's defer spilling: in a
// function with defers the results are stored into locals, `rundefers` runs,
// and the locals are re-loaded; the value last stored in the same block is
// the value returned (no deferred call of this code base assigns results,
// which is checked by deferAssignsResults).
func retVal(r *ssa.Return, i int) ssa.Value {
	if i < 0 || i >= len(r.Results) {
		return nil
	}
	v := r.Results[i]
	ld, ok := v.(*ssa.UnOp)
	if !ok || ld.Op != token.MUL {
		return v
	}
	al, ok := ld.X.(*ssa.Alloc)
	if !ok || al.Heap {
		return v
	}
	var last ssa.Value
	for _, ins := range r.Block().Instrs {
		if ins == ssa.Instruction(ld) {
			break
		}
		if st, ok := ins.(*ssa.Store); ok && st.Addr == ssa.Value(al) {
			last = st.Val
		}
	}
	if last != nil {
		return last
	}
	return v
}

// liveReturns lists the returns of fn, leaving out the synthetic recover
// block when no deferred call in fn can recover (then that block is dead).
func liveReturns(fn *ssa.Function) []*ssa.Return {
	var out []*ssa.Return
	for _, r := range returnsOf(fn) {
		if fn.Recover != nil && r.Block() == fn.Recover && !mayRecover(fn) {
			continue
		}
		out = append(out, r)
	}
	return out
}

func mayRecover(fn *ssa.Function) bool {
	rec := false
	allInstrs(fn, func(i ssa.Instruction) {
		d, ok := i.(*ssa.Defer)
		if !ok {
			return
		}
		var callee *ssa.Function
		if f := d.Call.StaticCallee(); f != nil {
			callee = f
		} else if mc, ok := d.Call.Value.(*ssa.MakeClosure); ok {
			callee, _ = mc.Fn.(*ssa.Function)
		}
		if callee == nil {
			rec = true // unknown deferred callee: assume it may recover
			return
		}
		if callee.Blocks == nil {
			return // external (std) function such as (*sync.Pool).Put: does not recover for us
		}
		allInstrs(callee, func(j ssa.Instruction) {
			if c, ok := j.(*ssa.Call); ok {
				if bi, ok := c.Call.Value.(*ssa.Builtin); ok && bi.Name() == "recover" {
					rec = true
				}
			}
		})
	})
	return rec
}

func lastInstr(bb *ssa.BasicBlock) ssa.Instruction {
	if len(bb.Instrs) == 0 {
		return nil
	}
	return bb.Instrs[len(bb.Instrs)-1]
}
