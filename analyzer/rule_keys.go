package main

// R-KEYS: partialDoc.keys (emission order) and partialDoc.obj (members) move
// together, keys alone decides output order, and no member is emitted twice.
// R-MAPORDER: no order-sensitive effect depends on map iteration order on
// the paths for which identical bytes are promised.

import (
	"fmt"
	"go/token"
	"go/types"
	"sort"
	"strings"

	"golang.org/x/tools/go/ssa"
)

func init() {
	register(&Rule{ID: "R-KEYS", Doc: "ordered-object invariant set(keys) = dom(obj), duplicate-free: every insert into obj of key k is paired with an append of the same k to keys that is guarded by a membership scan of keys (flag initialised inside the same iteration), and vice versa; every delete of k from obj is paired with the removal of the scanned index from keys, and vice versa; a whole-map store to obj is paired with a store to keys (or is the decoder call whose key list is stored); the emitter ranges over keys and emits obj[k] for that k, never ranging over the map; keys appends / obj inserts happen under an obj != nil fact",
		Run: ruleKeys, Min: map[string]int{"v5": 12}})
	register(&Rule{ID: "R-MAPORDER", Doc: "a range over a map whose body has an order-sensitive effect (append, buffer write, keys store, early return of a non-constant value) is not reachable from Apply*, CreateMergePatch or Equal, for which identical bytes / answers are promised",
		Run: ruleMapOrder, Min: map[string]int{"v5": 4, "legacy": 4}})
}

type pdAccess struct {
	ins  ssa.Instruction
	base ssa.Value // the *partialDoc
	key  ssa.Value // for inserts/deletes/appends
}

// pdField: addr is &X.<field> of a partialDoc; returns X.
func pdField(addr ssa.Value, field string) (ssa.Value, bool) {
	fa, ok := addr.(*ssa.FieldAddr)
	if !ok {
		return nil, false
	}
	fr := fieldOfAddr(fa)
	if fr.Type != "partialDoc" || fr.Field != field {
		return nil, false
	}
	return fa.X, true
}

// pdLoad: v is a load of X.<field>.
func pdLoad(v ssa.Value, field string) (ssa.Value, bool) {
	a := loadOf(v)
	if a == nil {
		return nil, false
	}
	return pdField(a, field)
}

// sameBase: two *partialDoc values denote the same object (same SSA value,
// or loads of the same local).
func sameBase(x, y ssa.Value) bool {
	if x == y {
		return true
	}
	lx, ly := loadOf(x), loadOf(y)
	return lx != nil && lx == ly
}

// elemOfKeys: v is an element loaded from X.keys.
func elemOfKeys(v ssa.Value, base ssa.Value) bool {
	a := loadOf(v)
	ia, ok := a.(*ssa.IndexAddr)
	if !ok {
		return false
	}
	x, ok := pdLoad(ia.X, "keys")
	return ok && sameBase(x, base)
}

func isLoopHeader(bb *ssa.BasicBlock) bool {
	for _, p := range bb.Preds {
		if bb.Dominates(p) {
			return true
		}
	}
	return false
}

type scanInfo struct {
	found    bool
	carried  string // non-empty: the membership flag is carried over from an outer loop
	cmpBlock *ssa.BasicBlock
}

// condFromScan: the condition value derives from a membership scan of
// base.keys comparing elements with key k.
func (b *Body) condFromScan(v ssa.Value, base, k ssa.Value, depth int, seen map[ssa.Value]bool, info *scanInfo) {
	if v == nil || depth > 8 || seen[v] {
		return
	}
	seen[v] = true
	switch x := v.(type) {
	case *ssa.BinOp:
		if x.Op == token.EQL || x.Op == token.NEQ {
			if (elemOfKeys(x.X, base) && x.Y == k) || (elemOfKeys(x.Y, base) && x.X == k) {
				info.found = true
				info.cmpBlock = x.Block()
				return
			}
		}
		b.condFromScan(x.X, base, k, depth+1, seen, info)
		b.condFromScan(x.Y, base, k, depth+1, seen, info)
	case *ssa.UnOp:
		if x.Op == token.NOT {
			b.condFromScan(x.X, base, k, depth+1, seen, info)
		}
	case *ssa.Call:
		// the scan lives in a helper that returns the position of the key (or -1)
		if b.isKeyIndexCall(x, base, k) {
			info.found = true
			info.cmpBlock = nil
		}
	case *ssa.Phi:
		for i, e := range x.Edges {
			if q, ok := e.(*ssa.Phi); ok && isLoopHeader(q.Block()) && q.Block() != x.Block() {
				// is q's loop an outer loop (its header dominates this phi and is not the scan loop)?
				if q.Block().Dominates(x.Block()) {
					// decide after the scan loop is known; remember
					if info.carried == "" {
						info.carried = q.Comment
						if info.carried == "" {
							info.carried = q.Name()
						}
					}
				}
			}
			b.condFromScan(e, base, k, depth+1, seen, info)
			p := x.Block().Preds[i]
			for _, cd := range b.controlDeps(p) {
				if iff, ok := cd.From.Instrs[len(cd.From.Instrs)-1].(*ssa.If); ok {
					b.condFromScan(iff.Cond, base, k, depth+1, seen, info)
				}
			}
			if iff, ok := p.Instrs[len(p.Instrs)-1].(*ssa.If); ok {
				b.condFromScan(iff.Cond, base, k, depth+1, seen, info)
			}
		}
	}
}

func ruleKeys(c *Ctx) {
	b := c.V5
	if b == nil {
		return
	}
	l := c.L
	if b.Lib.Type("partialDoc") == nil {
		l.add("R-KEYS", "v5", "anchor partialDoc", "", Undecided, "type partialDoc not found", false)
		return
	}
	b.keysNeverReordered(l)
	var writers []string
	for _, fn := range b.srcFuncs(b.Lib) {
		var appends, removals, keyStores, inserts, deletes, objStores []pdAccess
		var decoderFills []pdAccess // calls receiving &X.obj
		allInstrs(fn, func(i ssa.Instruction) {
			switch x := i.(type) {
			case *ssa.Store:
				if base, ok := pdField(x.Addr, "keys"); ok {
					// classify the stored value
					if call, ok := x.Val.(*ssa.Call); ok {
						if bi, ok := call.Call.Value.(*ssa.Builtin); ok && bi.Name() == "append" {
							a0 := call.Call.Args[0]
							if kb, ok := pdLoad(a0, "keys"); ok && sameBase(kb, base) {
								ops, ok := varargsOperands(call.Call.Args[1])
								if ok && len(ops) == 1 {
									appends = append(appends, pdAccess{i, base, ops[0]})
									return
								}
							}
							if sl, ok := a0.(*ssa.Slice); ok {
								if kb, ok := pdLoad(sl.X, "keys"); ok && sameBase(kb, base) {
									removals = append(removals, pdAccess{i, base, nil})
									return
								}
							}
						}
					}
					keyStores = append(keyStores, pdAccess{i, base, x.Val})
				}
				if base, ok := pdField(x.Addr, "obj"); ok {
					objStores = append(objStores, pdAccess{i, base, x.Val})
				}
			case *ssa.MapUpdate:
				if base, ok := pdLoad(x.Map, "obj"); ok {
					inserts = append(inserts, pdAccess{i, base, x.Key})
				}
			case *ssa.Call:
				if bi, ok := x.Call.Value.(*ssa.Builtin); ok && bi.Name() == "delete" {
					if base, ok := pdLoad(x.Call.Args[0], "obj"); ok {
						deletes = append(deletes, pdAccess{i, base, x.Call.Args[1]})
					}
					return
				}
				for _, a := range x.Call.Args {
					a = unwrapConv(a)
					if base, ok := pdField(a, "obj"); ok {
						decoderFills = append(decoderFills, pdAccess{i, base, nil})
					}
					if base, ok := pdField(a, "keys"); ok {
						keyStores = append(keyStores, pdAccess{i, base, nil})
					}
				}
			}
		})
		if len(appends)+len(removals)+len(keyStores)+len(inserts)+len(deletes)+len(objStores)+len(decoderFills) == 0 {
			continue
		}
		writers = append(writers, fname(fn))
		pd := b.postDominators(fn)

		// inserts <-> appends
		usedAppend := map[ssa.Instruction]bool{}
		for n, ins := range inserts {
			key := fmt.Sprintf("%s: insert #%d into obj is paired with a membership-guarded append of the same key to keys", fname(fn), n+1)
			var ap *pdAccess
			for i := range appends {
				if sameBase(appends[i].base, ins.base) && appends[i].key == ins.key {
					ap = &appends[i]
				}
			}
			if ap == nil {
				// key known present: it is an element of keys itself
				if elemOfKeys(ins.key, ins.base) {
					l.add("R-KEYS", "v5", key, b.posOf(ins.ins), Discharged, "the key is an element of keys (already a member)", true)
					continue
				}
				l.add("R-KEYS", "v5", key, b.posOf(ins.ins), Violated, "obj[k] is assigned but k is not appended to keys in this function: a new member would be silently dropped from every output", true)
				continue
			}
			usedAppend[ap.ins] = true
			// membership guard
			info := &scanInfo{}
			for _, e := range b.controlDepsTransitive(ap.ins.Block()) {
				if iff, ok := e.From.Instrs[len(e.From.Instrs)-1].(*ssa.If); ok {
					b.condFromScan(iff.Cond, ins.base, ins.key, 0, map[ssa.Value]bool{}, info)
				}
			}
			if !info.found && commaOkAbsent(ap.ins.Block(), ins.base, ins.key) {
				// the member map is asked, with comma-ok: keys and obj hold the same names (what the
				// other obligations of this rule keep true, for objects without duplicate names),
				// so the map's answer is the scan's
				if !pd.postDominates(ins.ins.Block(), ap.ins.Block()) && ins.ins.Block() != ap.ins.Block() && !ins.ins.Block().Dominates(ap.ins.Block()) {
					l.add("R-KEYS", "v5", key, b.posOf(ap.ins), Violated, "the append to keys can happen without the insert into obj (a member would be emitted as null although it was never set)", true)
					continue
				}
				l.add("R-KEYS", "v5", key, b.posOf(ins.ins), Discharged, "append(keys, k) for the same SSA key at "+b.posOf(ap.ins)+", taken only when the comma-ok lookup of k in this object's member map says absent (keys and obj name the same members); the insert goes with the append", true)
				continue
			}
			switch {
			case !info.found:
				l.add("R-KEYS", "v5", key, b.posOf(ap.ins), Violated, "the append to keys is not guarded by a scan of keys for this key (presence decided some other way, e.g. from the map value, which cannot tell an absent member from a null one): a member can be listed twice or moved", true)
				continue
			case info.carried != "":
				// carried flag is harmful only if it is the outer loop's (not the scan loop's) phi
				h := loopHeaderOf(info.cmpBlock)
				outer := false
				allInstrs(fn, func(i ssa.Instruction) {
					if q, ok := i.(*ssa.Phi); ok && (q.Comment == info.carried || q.Name() == info.carried) {
						if isLoopHeader(q.Block()) && q.Block() != h {
							outer = true
						}
					}
				})
				if outer {
					l.add("R-KEYS", "v5", key, b.posOf(ap.ins), Violated, "the membership flag ("+info.carried+") is carried over from an enclosing loop: a hit for an earlier key suppresses the append for a later one", true)
					continue
				}
			}
			// the insert executes whenever the append does, and the scan precedes the insert
			// (the insert may just as well come first: then it dominates the append)
			if !pd.postDominates(ins.ins.Block(), ap.ins.Block()) && ins.ins.Block() != ap.ins.Block() && !ins.ins.Block().Dominates(ap.ins.Block()) {
				l.add("R-KEYS", "v5", key, b.posOf(ap.ins), Violated, "the append to keys can happen without the insert into obj (a member would be emitted as null although it was never set)", true)
				continue
			}
			if info.cmpBlock != nil {
				h := loopHeaderOf(info.cmpBlock)
				// insert first, scan afterwards: fine as long as the scan cannot be skipped
				insertFirst := h != nil && ins.ins.Block().Dominates(h) && pd.postDominates(h, ins.ins.Block())
				if h != nil && !h.Dominates(ins.ins.Block()) && !insertFirst {
					l.add("R-KEYS", "v5", key, b.posOf(ins.ins), Violated, "the insert into obj can be reached without passing the membership scan", true)
					continue
				}
			}
			l.add("R-KEYS", "v5", key, b.posOf(ins.ins), Discharged, "append(keys, k) for the same SSA key at "+b.posOf(ap.ins)+", controlled by a scan of keys comparing each element with k; the insert post-dominates the append", true)
		}
		for n, ap := range appends {
			if !usedAppend[ap.ins] {
				l.add("R-KEYS", "v5", fmt.Sprintf("%s: append #%d to keys is paired with an insert into obj", fname(fn), n+1), b.posOf(ap.ins), Violated, "a key is appended to keys without a matching obj[k] assignment in this function", true)
			}
		}
		// deletes <-> removals
		usedRem := map[ssa.Instruction]bool{}
		for n, d := range deletes {
			key := fmt.Sprintf("%s: delete #%d from obj is paired with the removal of that key's slot from keys", fname(fn), n+1)
			var rm *pdAccess
			for i := range removals {
				if sameBase(removals[i].base, d.base) {
					rm = &removals[i]
				}
			}
			if rm == nil {
				l.add("R-KEYS", "v5", key, b.posOf(d.ins), Violated, "delete(obj, k) without removing k from keys in this function: a stale name stays in the order list (a later re-creation reuses the old position; the emitter has to skip or emits null)", true)
				continue
			}
			usedRem[rm.ins] = true
			// executed together
			together := rm.ins.Block() == d.ins.Block() || (rm.ins.Block().Dominates(d.ins.Block()) && pd.postDominates(d.ins.Block(), rm.ins.Block())) || (d.ins.Block().Dominates(rm.ins.Block()) && pd.postDominates(rm.ins.Block(), d.ins.Block()))
			if !together {
				l.add("R-KEYS", "v5", key, b.posOf(d.ins), Violated, "the delete and the keys removal are not executed together on every path", true)
				continue
			}
			// the removed index comes from a scan for k
			st := rm.ins.(*ssa.Store)
			call := st.Val.(*ssa.Call)
			sl0 := call.Call.Args[0].(*ssa.Slice)
			info := &scanInfo{}
			if sl0.High != nil {
				b.condFromScanIndex(sl0.High, d.base, d.key, info)
			}
			if !info.found {
				l.add("R-KEYS", "v5", key, b.posOf(rm.ins), Violated, "the slot removed from keys is not the index at which a scan of keys found this key", true)
				continue
			}
			l.add("R-KEYS", "v5", key, b.posOf(d.ins), Discharged, "keys = append(keys[:idx], keys[idx+1:]...) at "+b.posOf(rm.ins)+" with idx found by scanning keys for k; executed together with the delete", true)
		}
		for n, rm := range removals {
			if !usedRem[rm.ins] {
				l.add("R-KEYS", "v5", fmt.Sprintf("%s: keys removal #%d is paired with a delete from obj", fname(fn), n+1), b.posOf(rm.ins), Violated, "a name is removed from keys while the member stays in obj (a live member disappears from the output)", true)
			}
		}
		// whole-map stores and decoder fills
		for n, f := range decoderFills {
			key := fmt.Sprintf("%s: decoder fill #%d of obj stores the reported key list into keys", fname(fn), n+1)
			call := f.ins.(*ssa.Call)
			ok := false
			for _, ks := range keyStores {
				if ex, isEx := ks.key.(*ssa.Extract); isEx && ex.Tuple == ssa.Value(call) && ex.Index == 0 && sameBase(ks.base, f.base) {
					if okd, _ := b.successDominates(call, ks.ins); okd {
						ok = true
					}
				}
			}
			if ok {
				l.add("R-KEYS", "v5", key, b.posOf(call), Discharged, "keys = result 0 of the very call that decoded into &obj, stored on its success edge", true)
			} else {
				l.add("R-KEYS", "v5", key, b.posOf(call), Violated, "the decoder fills obj but its key list (result 0) is not what is stored into keys of the same object on the success edge", true)
			}
		}
		for n, s := range objStores {
			key := fmt.Sprintf("%s: whole-map store #%d to obj is paired with a store to keys", fname(fn), n+1)
			if al, fresh := rootOfAddr(s.ins.(*ssa.Store).Addr).(*ssa.Alloc); fresh && isConstructionStore(al, s.ins) {
				l.add("R-KEYS", "v5", key, b.posOf(s.ins), Discharged, "construction of a new partialDoc (composite literal: keys starts empty)", true)
				continue
			}
			ok := false
			for _, ks := range keyStores {
				if sameBase(ks.base, s.base) && ks.ins.Block() == s.ins.Block() {
					ok = true
				}
			}
			if ok {
				l.add("R-KEYS", "v5", key, b.posOf(s.ins), Discharged, "keys is stored in the same block", true)
			} else {
				l.add("R-KEYS", "v5", key, b.posOf(s.ins), Violated, "obj is replaced as a whole while keys keeps whatever it held (for a document decoded from a non-object text that is the recycled decoder's stale key list): members that do not exist would be emitted", true)
			}
		}
		for n, ks := range keyStores {
			paired := false
			for _, f := range decoderFills {
				if ex, isEx := ks.key.(*ssa.Extract); isEx && ex.Tuple == ssa.Value(f.ins.(*ssa.Call)) {
					paired = true
				}
			}
			for _, s := range objStores {
				if sameBase(ks.base, s.base) && ks.ins.Block() == s.ins.Block() {
					paired = true
				}
			}
			if al, fresh := rootOfAddr(storeAddr(ks.ins)).(*ssa.Alloc); fresh && isConstructionStore(al, ks.ins) {
				paired = true
			}
			if !paired {
				l.add("R-KEYS", "v5", fmt.Sprintf("%s: whole-list store #%d to keys is paired with obj", fname(fn), n+1), b.posOf(ks.ins), Violated, "keys is replaced as a whole without obj being (re)filled by the same decoder call or stored alongside", true)
			}
		}
		// (iv) appends / inserts under obj != nil
		for n, ins := range inserts {
			key := fmt.Sprintf("%s: insert #%d happens under an obj != nil fact", fname(fn), n+1)
			ok := false
			for _, bb := range fn.Blocks {
				iff, isIf := bb.Instrs[len(bb.Instrs)-1].(*ssa.If)
				if !isIf {
					continue
				}
				x, nnTrue, isNil := nilTestOfCond(iff.Cond)
				if !isNil {
					continue
				}
				if base, isObj := pdLoad(x, "obj"); isObj && sameBase(base, ins.base) {
					s := 1
					if nnTrue {
						s = 0
					}
					if edgeDominates(bb, s, ins.ins.Block()) {
						ok = true
					}
				}
			}
			if ok {
				l.add("R-KEYS", "v5", key, b.posOf(ins.ins), Discharged, "dominated by the non-nil edge of an obj == nil test on the same object", true)
			} else if okc, why := b.callersEstablishObjNonNil(fn, ins.base); okc {
				l.add("R-KEYS", "v5", key, b.posOf(ins.ins), Discharged, why, true)
			} else {
				l.add("R-KEYS", "v5", key, b.posOf(ins.ins), Violated, "obj may be nil here (a document decoded from the text null): assignment to an entry of a nil map panics, and keys may be the recycled decoder's stale list; "+why, true)
			}
		}
	}
	sort.Strings(writers)
	l.stat("R-KEYS").Extra["writers_of_keys_or_obj"] = writers

	// (v) a member that is replaced keeps its slot: no function removes key k from an
	// object and then sets/adds the same key on the same object
	// (vi) no loop over keys whose body can change keys of the same object
	isRemove := func(com *ssa.CallCommon) (ssa.Value, ssa.Value, bool) {
		if isContainerInvoke(com, "remove") {
			return com.Value, com.Args[0], true
		}
		if f := com.StaticCallee(); f != nil && recvTypeName(f) == "partialDoc" && f.Name() == "remove" {
			return com.Args[0], com.Args[1], true
		}
		return nil, nil, false
	}
	isSet := func(com *ssa.CallCommon) (ssa.Value, ssa.Value, bool) {
		if isContainerInvoke(com, "set") || isContainerInvoke(com, "add") {
			return com.Value, com.Args[0], true
		}
		if f := com.StaticCallee(); f != nil && recvTypeName(f) == "partialDoc" && (f.Name() == "set" || f.Name() == "add") {
			return com.Args[0], com.Args[1], true
		}
		return nil, nil, false
	}
	for _, fn := range b.srcFuncs(b.Lib) {
		nSlot, nLoops := 0, 0
		allInstrs(fn, func(i ssa.Instruction) {
			ci, ok := i.(ssa.CallInstruction)
			if !ok {
				return
			}
			rb, rk, ok := isRemove(ci.Common())
			if !ok {
				return
			}
			nSlot++
			key := fmt.Sprintf("%s: remove #%d is not followed by a re-creation of the same member (a replaced member keeps its slot)", fname(fn), nSlot)
			bad := ""
			for ins := range reachableAfterSameIteration(i) {
				c2, ok := ins.(ssa.CallInstruction)
				if !ok {
					continue
				}
				sb, sk, ok := isSet(c2.Common())
				if ok && sameBase(sb, rb) && sameKeyValue(sk, rk) {
					bad = "the same key is removed and then set again on the same object (at " + b.posOf(ins) + "): the member moves to the end of the object instead of keeping its position"
				}
			}
			if bad != "" {
				l.add("R-KEYS", "v5", key, b.posOf(i), Violated, bad, true)
			} else {
				l.add("R-KEYS", "v5", key, b.posOf(i), Discharged, "no set/add of the same key on the same object is reachable after the removal", true)
			}
		})
		// loops over keys
		for _, h := range fn.Blocks {
			if !isLoopHeader(h) {
				continue
			}
			// an index loop over a slice loaded from X.keys: the header compares idx < len(load X.keys)
			iff, ok := h.Instrs[len(h.Instrs)-1].(*ssa.If)
			if !ok {
				continue
			}
			cmp, ok := iff.Cond.(*ssa.BinOp)
			if !ok || cmp.Op != token.LSS {
				continue
			}
			ln, ok := cmp.Y.(*ssa.Call)
			if !ok {
				continue
			}
			bi, ok := ln.Call.Value.(*ssa.Builtin)
			if !ok || bi.Name() != "len" {
				continue
			}
			base, ok := pdLoad(ln.Call.Args[0], "keys")
			if !ok {
				continue
			}
			nLoops++
			key := fmt.Sprintf("%s: loop #%d over keys does not change keys of the same object while iterating", fname(fn), nLoops)
			bad := ""
			body := naturalLoop(h)
			for _, bb := range fn.Blocks {
				if !body[bb] {
					continue
				}
				for _, ins := range bb.Instrs {
					switch x := ins.(type) {
					case *ssa.Store:
						if kb, ok := pdField(x.Addr, "keys"); ok && sameBase(kb, base) {
							bad = "keys is stored inside the loop at " + b.posOf(ins)
						}
					case ssa.CallInstruction:
						com := x.Common()
						for _, g := range b.callees(com) {
							if !b.mayAppendKeys(g, map[*ssa.Function]bool{}) {
								continue
							}
							for _, a := range callArgs(com) {
								if sameBase(a, base) {
									bad = "the loop body calls " + fname(g) + " on the same object at " + b.posOf(ins) + ", which rewrites keys in place: the element after a removed one is skipped"
								}
							}
						}
					}
				}
			}
			if bad != "" {
				l.add("R-KEYS", "v5", key, b.posOf(iff), Violated, bad, true)
			} else {
				l.add("R-KEYS", "v5", key, b.posOf(iff), Discharged, "no store to keys of that object and no call that can rewrite it inside the loop", true)
			}
		}
	}

	// (iii) the emitter
	em := b.method(b.Lib, "partialDoc", "TrustMarshalJSON")
	key := "emitter: ranges over keys, emits obj[k] for that k, never ranges over the map"
	if em == nil {
		l.add("R-KEYS", "v5", key, "", Undecided, "partialDoc.TrustMarshalJSON not found", false)
	} else {
		bad := ""
		recv := ssa.Value(em.Params[0])
		allInstrs(em, func(i ssa.Instruction) {
			if r, ok := i.(*ssa.Range); ok {
				if _, isMap := r.X.Type().Underlying().(*types.Map); isMap {
					bad = "the emitter ranges over a map at " + b.posOf(i) + ": member order in the output becomes random"
				}
			}
		})
		var marshals []*ssa.Call
		allInstrs(em, func(i ssa.Instruction) {
			if call, ok := i.(*ssa.Call); ok {
				if f := call.Call.StaticCallee(); f != nil && f.Pkg == b.Codec && strings.HasPrefix(f.Name(), "Marshal") {
					marshals = append(marshals, call)
				}
			}
		})
		if bad == "" {
			if len(marshals) != 2 {
				bad = fmt.Sprintf("expected one name encoding and one value encoding per member, found %d codec Marshal* calls", len(marshals))
			} else {
				// which is name, which is value
				var nameCall, valCall *ssa.Call
				for _, m := range marshals {
					a0 := unwrapConv(m.Call.Args[0])
					if elemOfKeys(a0, recv) {
						nameCall = m
					} else if lk, ok := a0.(*ssa.Lookup); ok {
						if base, ok := pdLoad(lk.X, "obj"); ok && sameBase(base, recv) {
							valCall = m
						}
					}
				}
				if nameCall == nil || valCall == nil {
					bad = "the emitted name is not an element of keys, or the emitted value is not a lookup in obj"
				} else {
					lk := unwrapConv(valCall.Call.Args[0]).(*ssa.Lookup)
					if lk.Index != unwrapConv(nameCall.Call.Args[0]) {
						bad = "the value emitted after a name is not obj[that name]"
					}
					if !b.instrDominates(nameCall, valCall) {
						bad = "the value is encoded before its name"
					}
				}
			}
		}
		if bad != "" {
			l.add("R-KEYS", "v5", key, b.rel(em.Pos()), Violated, bad, true)
		} else {
			l.add("R-KEYS", "v5", key, b.rel(em.Pos()), Discharged, "name := keys[i]; value := obj[name]; no map range", true)
		}
		// what the emitter writes is the members as they are now: it answers success only after
		// the walk over keys (no kept text written in its place — a text kept from an earlier
		// encoding misses every change made below the object since), and it leaves the object as
		// it found it
		{
			key2 := "emitter: succeeds only after walking keys, and stores nothing into the object"
			bad2 := ""
			var header *ssa.BasicBlock
			allInstrs(em, func(i ssa.Instruction) {
				if ld, ok := i.(*ssa.UnOp); ok && elemOfKeys(ld, recv) {
					if h := innermostLoopHeader(ld.Block()); h != nil {
						header = h
					}
				}
			})
			if header == nil {
				bad2 = "no loop over the key list found"
			} else {
				ei := errResultIndex(em)
				for _, r := range liveReturns(em) {
					if ei >= 0 && b.definitelyNonNilErr(retVal(r, ei), r.Block(), 0) {
						continue
					}
					if !header.Dominates(r.Block()) {
						bad2 = "the return at " + b.posOf(r) + " can report success without the walk over keys having run: what was written is not the members as they are now"
					}
				}
			}
			allInstrs(em, func(i ssa.Instruction) {
				if st, ok := i.(*ssa.Store); ok {
					if fa, ok := st.Addr.(*ssa.FieldAddr); ok && fa.X == recv {
						bad2 = "the emitter stores into field " + fieldOfAddr(fa).Field + " of the object at " + b.posOf(st) + ": encoding a document changes it"
					}
				}
			})
			if bad2 != "" {
				l.add("R-KEYS", "v5", key2, b.rel(em.Pos()), Violated, bad2, true)
			} else {
				l.add("R-KEYS", "v5", key2, b.rel(em.Pos()), Discharged, "every return that may report success is dominated by the loop over keys; no store through the receiver", true)
			}
		}
	}
}

func storeAddr(i ssa.Instruction) ssa.Value {
	if st, ok := i.(*ssa.Store); ok {
		return st.Addr
	}
	return nil
}

// condFromScanIndex: idx (used as the removal position) is a phi that takes
// the loop index on the edge where keys[i] == k.
func (b *Body) condFromScanIndex(idx ssa.Value, base, k ssa.Value, info *scanInfo) {
	if call, ok := idx.(*ssa.Call); ok && b.isKeyIndexCall(call, base, k) {
		info.found = true
		return
	}
	phi, ok := idx.(*ssa.Phi)
	if !ok {
		return
	}
	for i, e := range phi.Edges {
		if _, isConst := e.(*ssa.Const); isConst {
			continue
		}
		// the edge's predecessor must be reached on the equal edge of keys[e] == k
		p := phi.Block().Preds[i]
		for _, bb := range p.Parent().Blocks {
			iff, ok := bb.Instrs[len(bb.Instrs)-1].(*ssa.If)
			if !ok {
				continue
			}
			bo, ok := iff.Cond.(*ssa.BinOp)
			if !ok || bo.Op != token.EQL {
				continue
			}
			var elem ssa.Value
			if bo.Y == k {
				elem = bo.X
			} else if bo.X == k {
				elem = bo.Y
			} else {
				continue
			}
			if !elemOfKeys(elem, base) {
				continue
			}
			ia := loadOf(elem).(*ssa.IndexAddr)
			if ia.Index == e && (bb.Succs[0] == p || edgeDominates(bb, 0, p)) {
				info.found = true
				info.cmpBlock = bb
			}
		}
	}
}

// callersEstablishObjNonNil: base is a parameter of fn and every library
// call site passes an object for which obj != nil is known (a dominating
// test on the argument, or the argument is the result of intoDoc on its
// success edge, or it is the caller's own parameter for which the same holds).
func (b *Body) callersEstablishObjNonNil(fn *ssa.Function, base ssa.Value) (bool, string) {
	return b.callersEstablishObjNonNilRec(fn, base, map[*ssa.Function]bool{})
}

func (b *Body) callersEstablishObjNonNilRec(fn *ssa.Function, base ssa.Value, seen map[*ssa.Function]bool) (bool, string) {
	p, ok := base.(*ssa.Parameter)
	if !ok {
		return false, "the object is not a parameter"
	}
	if seen[fn] {
		return true, "(recursion)"
	}
	seen[fn] = true
	pi := paramIdx(p)
	n := 0
	var whys []string
	for _, caller := range b.srcFuncs(b.Lib) {
		for _, cs := range callsTo(caller, func(cc *ssa.CallCommon) bool { return cc.StaticCallee() == fn }) {
			n++
			arg := cs.Common().Args[pi]
			okSite := false
			// (a) dominating obj != nil test on the argument
			for _, bb := range caller.Blocks {
				iff, isIf := bb.Instrs[len(bb.Instrs)-1].(*ssa.If)
				if !isIf {
					continue
				}
				for si := range bb.Succs {
					if !edgeDominates(bb, si, cs.Block()) {
						continue
					}
					if objNonNilOnEdge(iff.Cond, si, arg) {
						okSite = true
					}
				}
			}
			// (a') path-sensitive: with the edges that contradict the nil facts known at the
			// call site removed, every remaining path passes the non-nil edge of an obj == nil test
			if !okSite && b.objNonNilPathSensitive(caller, cs, arg) {
				okSite = true
			}
			// (b) result of intoDoc on its success edge (intoDoc succeeds only for object text)
			if ex, isEx := arg.(*ssa.Extract); isEx && !okSite {
				if call, isCall := ex.Tuple.(*ssa.Call); isCall {
					if f := call.Call.StaticCallee(); f != nil && f.Name() == "intoDoc" {
						for _, e := range errResultOf(call) {
							for _, t := range nilTests(caller, e) {
								if edgeDominates(t.Blk, 1-t.NonNilSucc, cs.Block()) {
									okSite = true
								}
							}
						}
					}
				}
			}
			// (c) the caller's own parameter
			if _, isParam := arg.(*ssa.Parameter); isParam && !okSite {
				if okc, _ := b.callersEstablishObjNonNilRec(caller, arg, seen); okc {
					okSite = true
				}
			}
			if !okSite {
				return false, "the call site in " + fname(caller) + " at " + b.posOf(cs) + " does not establish obj != nil for the object it passes"
			}
			whys = append(whys, fname(caller))
		}
	}
	if n == 0 {
		return false, "no call site"
	}
	return true, fmt.Sprintf("reviewed by construction: every one of the %d library call sites (%s) passes an object for which obj != nil was tested or that came out of a successful intoDoc", n, strings.Join(whys, ", "))
}

// objNonNilOnEdge: taking successor si of a branch on cond implies arg.obj != nil.
// Handles `a.obj == nil`, and disjunctions/conjunctions lowered to chained blocks.
func objNonNilOnEdge(cond ssa.Value, si int, arg ssa.Value) bool {
	x, nnTrue, ok := nilTestOfCond(cond)
	if !ok {
		return false
	}
	base, isObj := pdLoad(x, "obj")
	if !isObj || !sameBase(base, arg) {
		return false
	}
	want := 1
	if nnTrue {
		want = 0
	}
	return si == want
}

// ---- R-MAPORDER ------------------------------------------------------------------

// codecMapOrder: Go maps handed to the embedded encoder (the diff produced by
// CreateMergePatch is one) come out in one fixed order: the encoder collects
// the entries, sorts them with a comparator that compares the resolved key
// strings themselves with <, and writes them in the order of that slice. The
// key strings are the map keys (their text), never an encoded form whose
// spelling depends on an option.
func codecMapOrder(c *Ctx, b *Body) {
	l := c.L
	if b.Codec == nil {
		return
	}
	me := b.method(b.Codec, "mapEncoder", "encode")
	key := "codec mapEncoder: entries are written in the order of a sort on the resolved key strings"
	if me == nil {
		l.add("R-MAPORDER", "codec", key, "", Undecided, "mapEncoder.encode not found", false)
		return
	}
	bad := "no sort of the collected entries"
	allInstrs(me, func(i ssa.Instruction) {
		call, ok := i.(*ssa.Call)
		if !ok {
			return
		}
		f := call.Call.StaticCallee()
		if f == nil {
			return
		}
		n := stdName(f)
		if n != "sort.Slice" && n != "sort.SliceStable" && n != "slices.SortFunc" {
			return
		}
		var less *ssa.Function
		for _, a := range call.Call.Args {
			if mc, ok := a.(*ssa.MakeClosure); ok {
				less, _ = mc.Fn.(*ssa.Function)
			}
		}
		if less == nil {
			bad = "the comparator of the sort is not a closure of the function"
			return
		}
		// the comparator returns a < of two loads of one string field of two elements
		fieldCmp := ""
		for _, r := range liveReturns(less) {
			bo, ok := r.Results[0].(*ssa.BinOp)
			if !ok || bo.Op != token.LSS {
				bad = "the comparator does not return a plain < of two key strings (at " + b.posOf(r) + ")"
				return
			}
			_, f1, ok1 := fieldLoad(bo.X)
			_, f2, ok2 := fieldLoad(bo.Y)
			if !ok1 || !ok2 || f1 != f2 {
				bad = "the comparator does not compare the same field of two entries"
				return
			}
			fieldCmp = f1.Type + "." + f1.Field
		}
		if fieldCmp == "" {
			return
		}
		// every store to that field stores the key's own text
		okStores := true
		nSt := 0
		for _, fn := range b.srcFuncs(b.Codec) {
			allInstrs(fn, func(j ssa.Instruction) {
				st, ok := j.(*ssa.Store)
				if !ok {
					return
				}
				fa, ok := st.Addr.(*ssa.FieldAddr)
				if !ok {
					return
				}
				fr := fieldOfAddr(fa)
				if fr.Type+"."+fr.Field != fieldCmp {
					return
				}
				nSt++
				v := st.Val
				if cv, ok := v.(*ssa.Convert); ok {
					v = cv.X
				}
				if ex, ok := v.(*ssa.Extract); ok {
					v = ex.Tuple
				}
				c2, ok := v.(*ssa.Call)
				if !ok {
					okStores = false
					bad = "the sort key is assigned " + describeValue(st.Val) + " at " + b.posOf(st)
					return
				}
				name := ""
				if g := c2.Call.StaticCallee(); g != nil {
					name = stdName(g)
				} else if c2.Call.IsInvoke() {
					name = "invoke " + c2.Call.Method.Name()
				}
				switch name {
				case "(reflect.Value).String", "reflect.(Value).String", "strconv.FormatInt", "strconv.FormatUint", "invoke MarshalText":
				default:
					okStores = false
					bad = "the sort key is the result of " + name + " at " + b.posOf(st) + ", not the text of the map key itself: an order that depends on how the key is encoded (escaping) is not the standard library's, and changes with the HTML-escape switch"
				}
			})
		}
		if okStores && nSt > 0 {
			bad = ""
		}
	})
	if bad != "" {
		l.add("R-MAPORDER", "codec", key, b.rel(me.Pos()), Violated, bad, true)
	} else {
		l.add("R-MAPORDER", "codec", key, b.rel(me.Pos()), Discharged, "sort with `<` on the key-text field, which is only ever assigned the key's String()/FormatInt/FormatUint/MarshalText", true)
	}
}

func ruleMapOrder(c *Ctx) {
	if c.V5 != nil {
		codecMapOrder(c, c.V5)
	}
	for _, b := range c.bodies() {
		b.addressesInText(c.L)
		l := c.L
		ea := c.errFor(b)
		b.errChainNonEmpty = func(v ssa.Value) bool {
			return len(ea.chain(v, map[ssa.Value]bool{})) > 0
		}
		// reachability from the byte-exact entry points
		var roots []*ssa.Function
		for _, fn := range b.exportedAPI(b.Lib) {
			n := fn.Name()
			if strings.HasPrefix(n, "Apply") || n == "CreateMergePatch" || n == "Equal" || n == "DecodePatch" {
				roots = append(roots, fn)
			}
		}
		reach := map[*ssa.Function]bool{}
		var walk func(f *ssa.Function)
		walk = func(f *ssa.Function) {
			if f == nil || reach[f] || f.Blocks == nil || f.Pkg != b.Lib {
				return
			}
			reach[f] = true
			allInstrs(f, func(i ssa.Instruction) {
				if ci, ok := i.(ssa.CallInstruction); ok {
					for _, g := range b.callees(ci.Common()) {
						walk(g)
					}
					// methods reached through the codec's marshaler interfaces
				}
				if mc, ok := i.(*ssa.MakeClosure); ok {
					if g, ok := mc.Fn.(*ssa.Function); ok {
						walk(g)
					}
				}
			})
		}
		for _, r := range roots {
			walk(r)
		}
		// the codec calls back into the marshaler/unmarshaler methods of the working types
		for _, fn := range b.srcFuncs(b.Lib) {
			switch fn.Name() {
			case "TrustMarshalJSON", "RedirectMarshalJSON", "MarshalJSON", "UnmarshalJSON":
				walk(fn)
			}
		}
		for _, fn := range b.srcFuncs(b.Lib) {
			n := 0
			allInstrs(fn, func(i ssa.Instruction) {
				r, ok := i.(*ssa.Range)
				if !ok {
					return
				}
				if _, isMap := r.X.Type().Underlying().(*types.Map); !isMap {
					return
				}
				n++
				key := fmt.Sprintf("%s: map range #%d has no order-sensitive effect on a byte-exact path", fname(fn), n)
				eff := b.orderSensitiveEffect(fn, r)
				switch {
				case eff == "":
					l.add("R-MAPORDER", b.Name, key, b.posOf(i), Discharged, "the loop body has no order-sensitive effect (only commutative updates and returns of constants / errors)", true)
				case !reach[fn]:
					l.add("R-MAPORDER", b.Name, key, b.posOf(i), Discharged, "order-sensitive ("+eff+") but the function is reachable only from MergePatch/MergeMergePatches, for which only the JSON value is promised", true)
				default:
					l.add("R-MAPORDER", b.Name, key, b.posOf(i), Violated, "order-sensitive effect ("+eff+") inside a range over a map, reachable from Apply/CreateMergePatch/Equal: identical calls can return different bytes", true)
				}
			})
		}
	}
}

// orderSensitiveEffect describes the first order-sensitive effect in the body
// of the loop driven by range r ("" if none).
func (b *Body) orderSensitiveEffect(fn *ssa.Function, r *ssa.Range) string {
	// the loop: blocks dominated by the header that holds the Next of r and that reach it again
	var next *ssa.Next
	for _, ref := range *r.Referrers() {
		if n, ok := ref.(*ssa.Next); ok {
			next = n
		}
	}
	if next == nil {
		return ""
	}
	h := next.Block()
	inLoop := map[*ssa.BasicBlock]bool{}
	for _, bb := range fn.Blocks {
		if h.Dominates(bb) && reachesBlock(bb, h) {
			inLoop[bb] = true
		}
	}
	eff := ""
	for bb := range inLoop {
		for _, ins := range bb.Instrs {
			switch x := ins.(type) {
			case *ssa.Call:
				if bi, ok := x.Call.Value.(*ssa.Builtin); ok {
					if bi.Name() == "append" {
						eff = "append at " + b.posOf(ins)
					}
					continue
				}
				if f := x.Call.StaticCallee(); f != nil {
					n := stdName(f)
					if strings.HasPrefix(n, "bytes.(*Buffer).Write") || strings.HasPrefix(n, "strings.(*Builder).Write") || strings.HasPrefix(n, "fmt.Fprint") {
						eff = "buffer write at " + b.posOf(ins)
					}
					// a callee that appends to keys (set on a new member)
					if f.Pkg == b.Lib && b.mayAppendKeys(f, map[*ssa.Function]bool{}) {
						eff = "call of " + fname(f) + ", which can append to an ordered key list, at " + b.posOf(ins)
					}
				} else if x.Call.IsInvoke() {
					for _, g := range b.callees(&x.Call) {
						if b.mayAppendKeys(g, map[*ssa.Function]bool{}) {
							eff = "call of " + fname(g) + ", which can append to an ordered key list, at " + b.posOf(ins)
						}
					}
				}
			case *ssa.Store:
				if _, ok := pdField(x.Addr, "keys"); ok {
					eff = "store to keys at " + b.posOf(ins)
				}
			}
		}
		// early return of a non-constant, non-error value from inside the loop
		for _, s := range bb.Succs {
			if inLoop[s] {
				continue
			}
			// exit edge other than the loop's normal exit (from the header)
			if bb == h {
				continue
			}
			for _, ret := range returnsOf(fn) {
				if ret.Block() == s || s.Dominates(ret.Block()) {
					for _, rv := range ret.Results {
						if _, isConst := rv.(*ssa.Const); isConst {
							continue
						}
						if isErrorType(rv.Type()) {
							// an error made inside the loop: which member fails first decides which
							// error the caller sees (an error that can never be non-nil does not count)
							if vi, ok := rv.(ssa.Instruction); ok && (inLoop[vi.Block()] || s.Dominates(vi.Block())) && b.errChainNonEmpty != nil && b.errChainNonEmpty(rv) {
								eff = "early return of an error made inside the loop at " + b.posOf(ret) + " (when two members fail, the one visited first is reported)"
							}
							continue
						}
						// a value computed before the loop is order-insensitive
						if vi, ok := rv.(ssa.Instruction); ok && !inLoop[vi.Block()] && vi.Block().Dominates(h) {
							continue
						}
						if _, isParam := rv.(*ssa.Parameter); isParam {
							continue
						}
						eff = "early return of a non-constant value at " + b.posOf(ret)
					}
				}
			}
		}
	}
	return eff
}

func reachesBlock(from, to *ssa.BasicBlock) bool {
	seen := map[*ssa.BasicBlock]bool{}
	var walk func(bb *ssa.BasicBlock) bool
	walk = func(bb *ssa.BasicBlock) bool {
		if bb == to {
			return true
		}
		if seen[bb] {
			return false
		}
		seen[bb] = true
		for _, s := range bb.Succs {
			if walk(s) {
				return true
			}
		}
		return false
	}
	for _, s := range from.Succs {
		if walk(s) {
			return true
		}
	}
	return false
}

func (b *Body) mayAppendKeys(f *ssa.Function, seen map[*ssa.Function]bool) bool {
	if f == nil || seen[f] || f.Blocks == nil || f.Pkg != b.Lib {
		return false
	}
	seen[f] = true
	res := false
	allInstrs(f, func(i ssa.Instruction) {
		switch x := i.(type) {
		case *ssa.Store:
			if _, ok := pdField(x.Addr, "keys"); ok {
				res = true
			}
		case ssa.CallInstruction:
			for _, g := range b.callees(x.Common()) {
				if b.mayAppendKeys(g, seen) {
					res = true
				}
			}
		}
	})
	return res
}

// objNonNilPathSensitive: remove every CFG edge that contradicts a nil/non-nil
// fact dominating the call site, and the non-nil edges of all `arg.obj == nil`
// tests; if the call site is then unreachable from the entry, every feasible
// path to it has established arg.obj != nil.
func (b *Body) objNonNilPathSensitive(fn *ssa.Function, site ssa.Instruction, arg ssa.Value) bool {
	type fact struct {
		v      ssa.Value
		nonNil bool
	}
	var facts []fact
	for _, bb := range fn.Blocks {
		iff, ok := bb.Instrs[len(bb.Instrs)-1].(*ssa.If)
		if !ok {
			continue
		}
		x, nnTrue, ok := nilTestOfCond(iff.Cond)
		if !ok {
			continue
		}
		for si := range bb.Succs {
			if edgeDominates(bb, si, site.Block()) {
				facts = append(facts, fact{x, (si == 0) == nnTrue})
			}
		}
	}
	removed := map[[2]*ssa.BasicBlock]bool{}
	anyTest := false
	for _, bb := range fn.Blocks {
		iff, ok := bb.Instrs[len(bb.Instrs)-1].(*ssa.If)
		if !ok {
			continue
		}
		x, nnTrue, ok := nilTestOfCond(iff.Cond)
		if !ok {
			continue
		}
		for si, s := range bb.Succs {
			edgeNonNil := (si == 0) == nnTrue
			for _, f := range facts {
				if f.v == x && f.nonNil != edgeNonNil {
					removed[[2]*ssa.BasicBlock{bb, s}] = true
				}
			}
			if base, isObj := pdLoad(x, "obj"); isObj && sameBase(base, arg) && edgeNonNil {
				removed[[2]*ssa.BasicBlock{bb, s}] = true
				anyTest = true
			}
		}
	}
	if !anyTest {
		return false
	}
	seen := map[*ssa.BasicBlock]bool{}
	var walk func(bb *ssa.BasicBlock) bool
	walk = func(bb *ssa.BasicBlock) bool {
		if bb == site.Block() {
			return true
		}
		if seen[bb] {
			return false
		}
		seen[bb] = true
		for _, s := range bb.Succs {
			if removed[[2]*ssa.BasicBlock{bb, s}] {
				continue
			}
			if walk(s) {
				return true
			}
		}
		return false
	}
	return !walk(fn.Blocks[0])
}

// isConstructionStore: the store initialises a field of a composite literal:
// it is in the block of the allocation and no call receives the allocation before it.
func isConstructionStore(al *ssa.Alloc, st ssa.Instruction) bool {
	if al.Block() != st.Block() {
		return false
	}
	after := false
	for _, ins := range al.Block().Instrs {
		if ins == ssa.Instruction(al) {
			after = true
			continue
		}
		if !after {
			continue
		}
		if ins == st {
			return true
		}
		if ci, ok := ins.(ssa.CallInstruction); ok {
			for _, a := range callArgs(ci.Common()) {
				if a == ssa.Value(al) {
					return false
				}
			}
		}
	}
	return false
}

// naturalLoop: the blocks of the natural loop(s) with header h.
func naturalLoop(h *ssa.BasicBlock) map[*ssa.BasicBlock]bool {
	body := map[*ssa.BasicBlock]bool{h: true}
	var work []*ssa.BasicBlock
	for _, p := range h.Preds {
		if h.Dominates(p) {
			if !body[p] {
				body[p] = true
				work = append(work, p)
			}
		}
	}
	for len(work) > 0 {
		x := work[len(work)-1]
		work = work[:len(work)-1]
		for _, p := range x.Preds {
			if !body[p] {
				body[p] = true
				work = append(work, p)
			}
		}
	}
	return body
}

// innermostLoopHeader: header of the smallest natural loop containing bb (nil if none).
func innermostLoopHeader(bb *ssa.BasicBlock) *ssa.BasicBlock {
	var best *ssa.BasicBlock
	bestSize := 0
	for _, h := range bb.Parent().Blocks {
		if !isLoopHeader(h) {
			continue
		}
		body := naturalLoop(h)
		if body[bb] && (best == nil || len(body) < bestSize) {
			best, bestSize = h, len(body)
		}
	}
	return best
}

// reachableAfterSameIteration: instructions reachable after `from` without
// starting a new iteration of the innermost loop that contains it.
func reachableAfterSameIteration(from ssa.Instruction) map[ssa.Instruction]bool {
	out := map[ssa.Instruction]bool{}
	blk := from.Block()
	h := innermostLoopHeader(blk)
	past := false
	for _, i := range blk.Instrs {
		if past {
			out[i] = true
		}
		if i == from {
			past = true
		}
	}
	seen := map[*ssa.BasicBlock]bool{}
	var walk func(bb *ssa.BasicBlock)
	walk = func(bb *ssa.BasicBlock) {
		if seen[bb] || bb == h {
			return
		}
		seen[bb] = true
		for _, i := range bb.Instrs {
			out[i] = true
		}
		for _, s := range bb.Succs {
			walk(s)
		}
	}
	for _, s := range blk.Succs {
		walk(s)
	}
	return out
}

// sameKeyValue: the same SSA value, or two calls of the same function (a token
// decoder) on the same argument.
func sameKeyValue(a, b ssa.Value) bool {
	if a == b {
		return true
	}
	ca, ok1 := a.(*ssa.Call)
	cb, ok2 := b.(*ssa.Call)
	if !ok1 || !ok2 {
		return false
	}
	fa, fb := ca.Call.StaticCallee(), cb.Call.StaticCallee()
	if fa == nil || fa != fb || len(ca.Call.Args) != len(cb.Call.Args) {
		return false
	}
	for i := range ca.Call.Args {
		if ca.Call.Args[i] != cb.Call.Args[i] {
			return false
		}
	}
	return true
}

// isKeyIndexCall: call is h(base, k) (receiver first) where h scans the keys
// of its receiver for its string parameter and returns the index at which it
// found it, or the constant -1.
func (b *Body) isKeyIndexCall(call *ssa.Call, base, k ssa.Value) bool {
	h := call.Call.StaticCallee()
	if h == nil || h.Blocks == nil || len(h.Params) != 2 || len(call.Call.Args) != 2 {
		return false
	}
	if !sameBase(call.Call.Args[0], base) || call.Call.Args[1] != k {
		return false
	}
	if h.Signature.Results().Len() != 1 {
		return false
	}
	if bt, ok := h.Signature.Results().At(0).Type().Underlying().(*types.Basic); !ok || bt.Kind() != types.Int {
		return false
	}
	recv, kp := ssa.Value(h.Params[0]), ssa.Value(h.Params[1])
	nFound := 0
	for _, r := range liveReturns(h) {
		v := r.Results[0]
		if c, ok := intConst(v); ok {
			if c != -1 {
				return false
			}
			continue
		}
		ok := false
		for _, bb := range h.Blocks {
			iff, isIf := bb.Instrs[len(bb.Instrs)-1].(*ssa.If)
			if !isIf {
				continue
			}
			bo, isBo := iff.Cond.(*ssa.BinOp)
			if !isBo || bo.Op != token.EQL {
				continue
			}
			var elem ssa.Value
			if bo.Y == kp {
				elem = bo.X
			} else if bo.X == kp {
				elem = bo.Y
			} else {
				continue
			}
			if !elemOfKeys(elem, recv) {
				continue
			}
			ia, isIA := loadOf(elem).(*ssa.IndexAddr)
			if isIA && ia.Index == v && (bb.Succs[0] == r.Block() || edgeDominates(bb, 0, r.Block())) {
				ok = true
			}
		}
		if !ok {
			return false
		}
		nFound++
	}
	return nFound > 0
}

// commaOkAbsent: blk is reached only on the `absent` outcome of a comma-ok lookup of key in the
// member map of base.
func commaOkAbsent(blk *ssa.BasicBlock, base, key ssa.Value) bool {
	for _, f := range dominatingFacts(blk) {
		if f.True {
			continue
		}
		ex, ok := f.V.(*ssa.Extract)
		if !ok || ex.Index != 1 {
			continue
		}
		lk, ok := ex.Tuple.(*ssa.Lookup)
		if !ok || !lk.CommaOk || lk.Index != key {
			continue
		}
		if b0, ok := pdLoad(lk.X, "obj"); ok && sameBase(b0, base) {
			return true
		}
	}
	return false
}
