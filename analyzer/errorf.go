package main

// Decoding of fmt.Errorf calls in SSA form: constant format -> verb list ->
// operand values (through the varargs array).

import (
	"golang.org/x/tools/go/ssa"
)

// formatVerbs returns the verb letter of each operand-consuming directive
// of a fmt format string, in order ('*' width arguments are counted as
// verbs '*'); ok=false when explicit argument indexes (%[n]d) are used.
func formatVerbs(format string) (verbs []byte, ok bool) {
	for i := 0; i < len(format); i++ {
		if format[i] != '%' {
			continue
		}
		i++
		if i >= len(format) {
			break
		}
		if format[i] == '%' {
			continue
		}
		// flags, width, precision
		for i < len(format) {
			c := format[i]
			if c == '[' {
				return nil, false
			}
			if c == '*' {
				verbs = append(verbs, '*')
				i++
				continue
			}
			if c == '+' || c == '-' || c == '#' || c == ' ' || c == '0' || c == '.' || (c >= '1' && c <= '9') {
				i++
				continue
			}
			break
		}
		if i < len(format) {
			verbs = append(verbs, format[i])
		}
	}
	return verbs, true
}

// varargsOperands returns the values stored into the slots of the varargs
// slice passed as v (a Slice of an Alloc of array type), in slot order. nil
// entries mean "unknown".
func varargsOperands(v ssa.Value) ([]ssa.Value, bool) {
	if c, ok := v.(*ssa.Const); ok && c.Value == nil {
		return nil, true // no varargs
	}
	sl, ok := v.(*ssa.Slice)
	if !ok {
		return nil, false
	}
	al, ok := sl.X.(*ssa.Alloc)
	if !ok {
		return nil, false
	}
	var out []ssa.Value
	for _, r := range *al.Referrers() {
		ia, ok := r.(*ssa.IndexAddr)
		if !ok {
			continue
		}
		idx, ok := intConst(ia.Index)
		if !ok {
			return nil, false
		}
		for _, r2 := range *ia.Referrers() {
			if st, ok := r2.(*ssa.Store); ok && st.Addr == ssa.Value(ia) {
				for int(idx) >= len(out) {
					out = append(out, nil)
				}
				out[idx] = unwrapConv(st.Val)
			}
		}
	}
	return out, true
}

// errorfInfo decodes a call of fmt.Errorf.
type errorfInfo struct {
	Format  string
	Verbs   []byte
	Ops     []ssa.Value
	Decoded bool
}

func decodeErrorf(call *ssa.Call) errorfInfo {
	var info errorfInfo
	if len(call.Call.Args) < 1 {
		return info
	}
	f, ok := strConst(call.Call.Args[0])
	if !ok {
		return info
	}
	info.Format = f
	verbs, ok := formatVerbs(f)
	if !ok {
		return info
	}
	info.Verbs = verbs
	if len(call.Call.Args) < 2 {
		info.Decoded = len(verbs) == 0
		return info
	}
	ops, ok := varargsOperands(call.Call.Args[1])
	if !ok {
		return info
	}
	info.Ops = ops
	info.Decoded = true
	return info
}

// errorfWrapOperands: operands consumed by %w verbs.
func errorfWrapOperands(call *ssa.Call) []ssa.Value {
	info := decodeErrorf(call)
	if !info.Decoded {
		return nil
	}
	var out []ssa.Value
	for i, v := range info.Verbs {
		if v == 'w' && i < len(info.Ops) && info.Ops[i] != nil {
			out = append(out, info.Ops[i])
		}
	}
	return out
}
