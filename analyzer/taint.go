package main

// A-TAINT: intraprocedural, flow-insensitive value-flow closure over SSA
// def-use chains, with object-level propagation through stores (storing a
// marked value into a field/element/local marks the object that holds it).
// Interprocedural flow is handled by the rules through per-function
// summaries computed to a fixpoint.

import (
	"go/types"

	"golang.org/x/tools/go/ssa"
)

type taintOpts struct {
	// callResult decides whether the result of call c is marked, given that
	// at least one argument (index list, receiver first for invokes) is
	// marked. nil = mark when the result type can carry data (not bool /
	// numeric / error).
	callResult func(c ssa.CallInstruction, markedArgs []int) bool
	// through lists extra instructions to stop at (value is not propagated).
	stop func(v ssa.Value) bool
}

// rootOfAddr walks an address expression back to the value that owns the
// storage: through FieldAddr, IndexAddr, and loads of pointers are NOT
// crossed (a pointer loaded from memory is its own root).
func rootOfAddr(v ssa.Value) ssa.Value {
	for {
		switch x := v.(type) {
		case *ssa.FieldAddr:
			v = x.X
		case *ssa.IndexAddr:
			v = x.X
		case *ssa.ChangeType:
			v = x.X
		case *ssa.Convert:
			v = x.X
		default:
			return v
		}
	}
}

func canCarryData(t types.Type) bool {
	switch u := t.Underlying().(type) {
	case *types.Basic:
		return u.Kind() == types.String || u.Kind() == types.UnsafePointer
	case *types.Tuple:
		for i := 0; i < u.Len(); i++ {
			if canCarryData(u.At(i).Type()) {
				return true
			}
		}
		return false
	case *types.Interface:
		// error values are not data carriers for our purposes
		return !isErrorType(t)
	case *types.Signature:
		return false
	}
	return true
}

// callArgs returns the argument list with the receiver first for invokes.
func callArgs(c *ssa.CallCommon) []ssa.Value {
	if c.IsInvoke() {
		return append([]ssa.Value{c.Value}, c.Args...)
	}
	return c.Args
}

func taintClosure(fn *ssa.Function, seeds []ssa.Value, opts *taintOpts) map[ssa.Value]bool {
	t := map[ssa.Value]bool{}
	for _, s := range seeds {
		if s != nil {
			t[s] = true
		}
	}
	if opts == nil {
		opts = &taintOpts{}
	}
	for changed := true; changed; {
		changed = false
		mark := func(v ssa.Value) {
			if v == nil || t[v] {
				return
			}
			if _, isConst := v.(*ssa.Const); isConst {
				return
			}
			if opts.stop != nil && opts.stop(v) {
				return
			}
			t[v] = true
			changed = true
		}
		for _, b := range fn.Blocks {
			for _, ins := range b.Instrs {
				switch x := ins.(type) {
				case *ssa.Store:
					if t[x.Val] {
						mark(rootOfAddr(x.Addr))
						mark(x.Addr)
					}
				case *ssa.MapUpdate:
					if t[x.Value] || t[x.Key] {
						mark(x.Map)
					}
				case *ssa.Send:
					if t[x.X] {
						mark(x.Chan)
					}
				case ssa.CallInstruction:
					com := x.Common()
					if bi, ok := com.Value.(*ssa.Builtin); ok && bi.Name() == "copy" && len(com.Args) == 2 && t[com.Args[1]] {
						// copy(dst, src): the destination storage now holds the data
						mark(com.Args[0])
						if a := loadOf(com.Args[0]); a != nil {
							mark(a)
							mark(rootOfAddr(a))
						}
						if sl, ok := com.Args[0].(*ssa.Slice); ok {
							mark(sl.X)
						}
					}
					var marked []int
					for i, a := range callArgs(com) {
						if t[a] {
							marked = append(marked, i)
						}
					}
					if len(marked) == 0 {
						continue
					}
					v, isVal := ins.(ssa.Value)
					if !isVal {
						continue
					}
					ok := false
					if opts.callResult != nil {
						ok = opts.callResult(x, marked)
					} else {
						ok = canCarryData(v.Type())
					}
					if ok {
						mark(v)
					}
				case ssa.Value:
					var ops []*ssa.Value
					for _, op := range ins.Operands(ops) {
						if *op != nil && t[*op] {
							// comparisons and length do not carry the data
							switch y := x.(type) {
							case *ssa.BinOp:
								if !canCarryData(y.Type()) {
									continue
								}
							case *ssa.UnOp:
								if !canCarryData(y.Type()) {
									continue
								}
							}
							if !canCarryData(x.Type()) {
								continue
							}
							mark(x)
							break
						}
					}
				}
			}
		}
	}
	return t
}
