package main

// Role-based resolution of the unexported functions the rules are anchored
// in. Each anchor is found through what it *does* in the current source (who
// calls it, what it takes and returns); the historical name is only the
// fall-back, so renaming an internal function does not raise an alarm.

import (
	"go/token"
	"go/types"

	"golang.org/x/tools/go/ssa"
)

func (b *Body) roleFn(role string) *ssa.Function {
	if b.roleCache == nil {
		b.roleCache = map[string]*ssa.Function{}
	}
	if f, ok := b.roleCache[role]; ok {
		return f
	}
	f := b.resolveRole(role)
	if f == nil {
		f = fnOf(b.Lib, role) // historical name
	}
	b.roleCache[role] = f
	return f
}

func sigHas(fn *ssa.Function, params []string, results []string) bool {
	sig := fn.Signature
	if sig.Recv() != nil {
		return false
	}
	match := func(tup *types.Tuple, want []string, prefix bool) bool {
		if prefix {
			if tup.Len() < len(want) {
				return false
			}
		} else if tup.Len() != len(want) {
			return false
		}
		for i, w := range want {
			if typeShort(tup.At(i).Type()) != w {
				return false
			}
		}
		return true
	}
	return match(sig.Params(), params, true) && match(sig.Results(), results, false)
}

func (b *Body) libCalleesOf(fn *ssa.Function) []*ssa.Function {
	var out []*ssa.Function
	seen := map[*ssa.Function]bool{}
	if fn == nil {
		return nil
	}
	allInstrs(fn, func(i ssa.Instruction) {
		if ci, ok := i.(ssa.CallInstruction); ok {
			if f := ci.Common().StaticCallee(); f != nil && f.Pkg == b.Lib && !seen[f] {
				seen[f] = true
				out = append(out, f)
			}
		}
	})
	return out
}

func (b *Body) resolveRole(role string) *ssa.Function {
	pick := func(cands []*ssa.Function, pred func(*ssa.Function) bool) *ssa.Function {
		var got *ssa.Function
		for _, f := range cands {
			if pred(f) {
				if got != nil && got != f {
					return nil // ambiguous: fall back to the name
				}
				got = f
			}
		}
		return got
	}
	all := b.srcFuncs(b.Lib)
	switch role {
	case "doMergePatch":
		// the unexported function that both exported merge entry points call with ([]byte, []byte, bool)
		mp, mmp := fnOf(b.Lib, "MergePatch"), fnOf(b.Lib, "MergeMergePatches")
		return pick(b.libCalleesOf(mp), func(f *ssa.Function) bool {
			for _, g := range b.libCalleesOf(mmp) {
				if g == f && sigHas(f, []string{"[]byte", "[]byte", "bool"}, []string{"[]byte", "error"}) {
					return true
				}
			}
			return false
		})
	case "merge":
		return pick(all, func(f *ssa.Function) bool {
			return sigHas(f, []string{"*jsonpatch.lazyNode", "*jsonpatch.lazyNode", "bool"}, []string{"*jsonpatch.lazyNode"})
		})
	case "mergeDocs":
		return pick(all, func(f *ssa.Function) bool {
			return sigHas(f, []string{"*jsonpatch.partialDoc", "*jsonpatch.partialDoc", "bool"}, nil)
		})
	case "pruneNulls":
		// the function merge calls on the patch value: takes a node, returns nothing
		host := b.roleFn("merge")
		if host == nil {
			host = b.roleFn("mergeDocs") // merge inlined into the member walk
		}
		return pick(b.libCalleesOf(host), func(f *ssa.Function) bool {
			return sigHas(f, []string{"*jsonpatch.lazyNode"}, nil) && f.Signature.Results().Len() == 0
		})
	case "pruneAryNulls":
		return pick(all, func(f *ssa.Function) bool {
			return sigHas(f, []string{"*jsonpatch.partialArray"}, []string{"*jsonpatch.partialArray"})
		})
	case "deepCopy":
		return pick(all, func(f *ssa.Function) bool {
			return f.Signature.Recv() == nil && f.Signature.Results().Len() == 3 && sigHas(f, []string{"*jsonpatch.lazyNode"}, []string{"*jsonpatch.lazyNode", "int", "error"})
		})
	case "ensurePathExists":
		return pick(all, func(f *ssa.Function) bool {
			return sigHas(f, []string{"*jsonpatch.container", "string", "*jsonpatch.ApplyOptions"}, []string{"error"})
		})
	case "createArrayMergePatch", "createObjectMergePatch":
		cm := fnOf(b.Lib, "CreateMergePatch")
		cands := b.libCalleesOf(cm)
		var twoBytes []*ssa.Function
		for _, f := range cands {
			if sigHas(f, []string{"[]byte", "[]byte"}, []string{"[]byte", "error"}) {
				twoBytes = append(twoBytes, f)
			}
		}
		if len(twoBytes) != 2 {
			return nil
		}
		// the array form is the one that calls the other in a loop
		for i, f := range twoBytes {
			o := twoBytes[1-i]
			calls := false
			for _, g := range b.libCalleesOf(f) {
				if g == o {
					calls = true
				}
			}
			if calls {
				if role == "createArrayMergePatch" {
					return f
				}
				return o
			}
		}
		return nil
	case "getDiff":
		return pick(all, func(f *ssa.Function) bool {
			return sigHas(f, []string{"map[string]interface{}", "map[string]interface{}"}, []string{"map[string]interface{}", "error"})
		})
	case "matchesValue":
		return pick(all, func(f *ssa.Function) bool {
			return sigHas(f, []string{"interface{}", "interface{}"}, []string{"bool"}) && f.Signature.Params().Len() == 2
		})
	case "isArray":
		return pick(all, func(f *ssa.Function) bool {
			if !sigHas(f, []string{"[]byte"}, []string{"bool"}) || f.Signature.Params().Len() != 1 {
				return false
			}
			// the predicate that looks for an opening bracket: it compares a byte with '['
			found := false
			allInstrs(f, func(i ssa.Instruction) {
				if bo, ok := i.(*ssa.BinOp); ok && (bo.Op == token.EQL || bo.Op == token.NEQ) {
					for _, v := range []ssa.Value{bo.X, bo.Y} {
						if n, ok := intConst(v); ok && n == '[' {
							found = true
						}
					}
				}
			})
			return found
		})
	case "validateOperation":
		return pick(all, func(f *ssa.Function) bool {
			return sigHas(f, []string{"jsonpatch.Operation"}, []string{"error"}) && f.Signature.Params().Len() == 1
		})
	case "validatePatch":
		return pick(all, func(f *ssa.Function) bool {
			return sigHas(f, []string{"jsonpatch.Patch"}, []string{"error"}) && f.Signature.Params().Len() == 1
		})
	}
	return nil
}

// roleNameOf: the historical role name of fn if it plays one of the resolved roles, else its own name.
func (b *Body) roleNameOf(fn *ssa.Function) string {
	for _, role := range []string{"pruneNulls", "pruneAryNulls", "merge", "mergeDocs", "deepCopy", "ensurePathExists", "doMergePatch"} {
		if b.roleFn(role) == fn {
			return role
		}
	}
	return fn.Name()
}

// equalRole: the recursive structural comparison of two nodes: a method of
// *lazyNode that takes another *lazyNode, returns bool and calls itself.
func (b *Body) equalRole() *ssa.Function {
	if b.roleCache == nil {
		b.roleCache = map[string]*ssa.Function{}
	}
	if f, ok := b.roleCache["(equal)"]; ok {
		return f
	}
	var got *ssa.Function
	n := 0
	for _, f := range b.srcFuncs(b.Lib) {
		if f.Signature.Recv() == nil || !isPtrToNamed(f.Signature.Recv().Type(), "lazyNode") {
			continue
		}
		if f.Signature.Results().Len() != 1 || typeShort(f.Signature.Results().At(0).Type()) != "bool" {
			continue
		}
		has := false
		for i := 0; i < f.Signature.Params().Len(); i++ {
			if isPtrToNamed(f.Signature.Params().At(i).Type(), "lazyNode") {
				has = true
			}
		}
		if !has {
			continue
		}
		rec := false
		for _, g := range b.libCalleesOf(f) {
			if g == f {
				rec = true
			}
		}
		if rec {
			got = f
			n++
		}
	}
	if n != 1 {
		got = b.method(b.Lib, "lazyNode", "equal")
	}
	b.roleCache["(equal)"] = got
	return got
}

// canonFname: fname(fn) with the historical name substituted when fn is found
// through its role (tables of reviewed exceptions are keyed by these names).
func (b *Body) canonFname(fn *ssa.Function) string {
	if fn == b.equalRole() {
		return "(*lazyNode).equal"
	}
	if fn.Signature.Recv() == nil && fn.Parent() == nil {
		return b.roleNameOf(fn)
	}
	return fname(fn)
}
