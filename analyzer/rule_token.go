package main

// R-TOKEN / R-TOKTAB: every RFC 6901 reference token is decoded exactly once
// before it names a member, and the decoder's table is the RFC's.

import (
	"fmt"
	"go/token"
	"go/types"
	"sort"
	"strings"

	"golang.org/x/tools/go/ssa"
)

func init() {
	register(&Rule{ID: "R-TOKEN", Doc: "every reference token (element of strings.Split(path, \"/\")) that reaches the key parameter of a container method passes through the RFC 6901 decoder exactly once on every def-use path (zero: `a~1b` is used literally; two: `~01` becomes `/`); generated index tokens (strconv.Itoa) and constants need no decoding",
		Run: ruleToken, Min: map[string]int{"v5": 12, "legacy": 10}})
	register(&Rule{ID: "R-TOKTAB", Doc: "the RFC 6901 decoder is a single-pass strings.Replacer whose pairs are exactly {~1→/, ~0→~}, or two successive whole-string replacements in the RFC order (~1 first, then ~0)",
		Run: ruleTokTab, Min: map[string]int{"v5": 1, "legacy": 1}})
}

// tokenDecoders: library functions func(string) string whose result is
// computed from the parameter by (*strings.Replacer).Replace or
// strings.ReplaceAll/Replace.
func (b *Body) tokenDecoders() []*ssa.Function {
	var out []*ssa.Function
	for _, fn := range b.srcFuncs(b.Lib) {
		sig := fn.Signature
		if sig.Recv() != nil || sig.Params().Len() != 1 || sig.Results().Len() != 1 {
			continue
		}
		if !isStringType(sig.Params().At(0).Type()) || !isStringType(sig.Results().At(0).Type()) {
			continue
		}
		uses := false
		allInstrs(fn, func(i ssa.Instruction) {
			if c, ok := i.(*ssa.Call); ok && isReplaceCall(&c.Call) != "" {
				uses = true
			}
		})
		if uses {
			out = append(out, fn)
		}
	}
	return out
}

func isStringType(t types.Type) bool {
	bt, ok := t.Underlying().(*types.Basic)
	return ok && bt.Kind() == types.String
}

// isReplaceCall classifies a call: "replacer" ((*strings.Replacer).Replace),
// "replaceall" (strings.ReplaceAll), "replace" (strings.Replace), or "".
func isReplaceCall(c *ssa.CallCommon) string {
	f := c.StaticCallee()
	if f == nil {
		return ""
	}
	if methodIs(f, "strings", "Replacer", "Replace") {
		return "replacer"
	}
	if funcIs(f, "strings", "ReplaceAll") {
		return "replaceall"
	}
	if funcIs(f, "strings", "Replace") {
		return "replace"
	}
	return ""
}

type tokTrace struct {
	b        *Body
	decoders map[*ssa.Function]bool
	// results: per reached origin, the set of decode counts seen
	origins map[string]map[int]bool
	unknown []string
	seen    map[string]bool
}

func isSplitCall(v ssa.Value) bool {
	c, ok := v.(*ssa.Call)
	return ok && (staticCalleeIs(&c.Call, "strings", "Split") || staticCalleeIs(&c.Call, "strings", "SplitN"))
}

// sliceOrigin follows Slice instructions back to the producing value.
func sliceOrigin(v ssa.Value) ssa.Value {
	return sliceOriginSeen(v, map[ssa.Value]bool{})
}

func sliceOriginSeen(v ssa.Value, seen map[ssa.Value]bool) ssa.Value {
	for {
		switch x := v.(type) {
		case *ssa.Slice:
			v = x.X
		case *ssa.Phi:
			if seen[x] {
				return v // a loop-carried value: its own origin says nothing new
			}
			seen[x] = true
			// all edges must agree (an edge that leads back to this phi does not count)
			var o ssa.Value
			for _, e := range x.Edges {
				eo := sliceOriginSeen(e, seen)
				if eo == ssa.Value(x) {
					continue
				}
				if o == nil {
					o = eo
				} else if o != eo {
					return v
				}
			}
			if o == nil {
				return v
			}
			return o
		default:
			return v
		}
	}
}

func (t *tokTrace) note(origin string, n int) {
	if t.origins[origin] == nil {
		t.origins[origin] = map[int]bool{}
	}
	t.origins[origin][n] = true
}

func (t *tokTrace) walk(v ssa.Value, n int, depth int) {
	if depth > 12 {
		t.unknown = append(t.unknown, "trace too deep")
		return
	}
	k := fmt.Sprintf("%p/%d", v, n)
	if t.seen[k] {
		return
	}
	t.seen[k] = true
	switch x := v.(type) {
	case *ssa.Const:
		t.note("constant "+x.String(), 1) // a constant token needs no decoding: counted as exact
	case *ssa.Phi:
		for _, e := range x.Edges {
			t.walk(e, n, depth+1)
		}
	case *ssa.UnOp:
		if x.Op == token.MUL {
			if ia, ok := x.X.(*ssa.IndexAddr); ok {
				if o := sliceOrigin(ia.X); isSplitCall(o) {
					t.note("element of strings.Split at "+t.b.posOf(o.(*ssa.Call)), n)
					return
				}
			}
			// load of a local: follow its stores
			if al, ok := x.X.(*ssa.Alloc); ok {
				for _, r := range *al.Referrers() {
					if st, ok := r.(*ssa.Store); ok && st.Addr == ssa.Value(al) {
						t.walk(st.Val, n, depth+1)
					}
				}
				return
			}
		}
		t.unknown = append(t.unknown, "load "+x.X.String()+" at "+t.b.posOf(x))
	case *ssa.Index:
		if o := sliceOrigin(x.X); isSplitCall(o) {
			t.note("element of strings.Split at "+t.b.posOf(o.(*ssa.Call)), n)
			return
		}
		t.unknown = append(t.unknown, "index of "+x.X.String())
	case *ssa.Call:
		f := x.Call.StaticCallee()
		switch {
		case f != nil && t.decoders[f]:
			t.walk(x.Call.Args[0], n+1, depth+1)
		case f != nil && (funcIs(f, "strconv", "Itoa") || funcIs(f, "strconv", "FormatInt")):
			t.note("generated index (strconv."+f.Name()+")", 1)
		case f != nil && isReplaceCall(&x.Call) != "":
			// decoding inlined at the use site counts as a decoder application
			arg := x.Call.Args[0]
			if isReplaceCall(&x.Call) == "replacer" {
				arg = x.Call.Args[1]
			}
			t.walk(arg, n+1, depth+1)
		default:
			t.unknown = append(t.unknown, "result of "+calleeLabel(&x.Call)+" at "+t.b.posOf(x))
		}
	case *ssa.Extract:
		if _, isNext := x.Tuple.(*ssa.Next); isNext {
			// key/element of a range over a map or string: a member name that is
			// already in decoded form, not a reference token
			t.note("member name from a range iteration", n)
			return
		}
		call, ok := x.Tuple.(*ssa.Call)
		if !ok {
			t.unknown = append(t.unknown, "extract of non-call")
			return
		}
		f := call.Call.StaticCallee()
		if f == nil || f.Blocks == nil || !t.b.inRepo(f) {
			t.unknown = append(t.unknown, "result of "+calleeLabel(&call.Call))
			return
		}
		for _, r := range returnsOf(f) {
			t.walk(r.Results[x.Index], n, depth+1)
		}
	case *ssa.Parameter:
		fn := x.Parent()
		idx := -1
		for i, p := range fn.Params {
			if p == x {
				idx = i
			}
		}
		found := false
		for _, caller := range t.b.srcFuncs(t.b.Lib) {
			for _, cs := range callsTo(caller, func(cc *ssa.CallCommon) bool { return cc.StaticCallee() == fn }) {
				found = true
				t.walk(cs.Common().Args[idx], n, depth+1)
			}
		}
		if !found {
			t.unknown = append(t.unknown, "parameter "+x.Name()+" of "+fname(fn)+" without a library call site")
		}
	default:
		t.unknown = append(t.unknown, fmt.Sprintf("%T %s", v, v.String()))
	}
}

func isContainerImplMethod(f *ssa.Function) bool {
	if f == nil {
		return false
	}
	r := recvTypeName(f)
	if r != "partialDoc" && r != "partialArray" {
		return false
	}
	switch f.Name() {
	case "get", "set", "add", "remove":
		return true
	}
	return false
}

func ruleToken(c *Ctx) {
	for _, b := range c.bodies() {
		l := c.L
		decs := b.tokenDecoders()
		if len(decs) == 0 {
			l.add("R-TOKEN", b.Name, "anchor RFC 6901 decoder", "", Undecided, "no func(string) string built on strings.Replacer/ReplaceAll found in the library", false)
			continue
		}
		dm := map[*ssa.Function]bool{}
		var dn []string
		for _, d := range decs {
			dm[d] = true
			dn = append(dn, fname(d))
		}
		l.stat("R-TOKEN").Extra[b.Name+"_decoders"] = dn
		b.resolverDecides(l)
		if b.Name == "v5" {
			b.indexSyntax(l)
		} else {
			b.noHandWrittenDecimal(l)
		}
		// the pointer is split as given: strings.Split(path, "/") applied to the path parameter
		// itself, and exactly the element in front of the first "/" is dropped (a trimmed or
		// cleaned path loses leading empty reference tokens: "//a" is the member "a" of the
		// member with the empty name, not the member "a")
		for _, fn := range b.srcFuncs(b.Lib) {
			n := 0
			allInstrs(fn, func(i ssa.Instruction) {
				call, ok := i.(*ssa.Call)
				if !ok {
					return
				}
				f := call.Call.StaticCallee()
				if f == nil || stdName(f) != "strings.Split" {
					return
				}
				if sep, ok := strConst(call.Call.Args[1]); !ok || sep != "/" {
					return
				}
				n++
				key := fmt.Sprintf("%s: split #%d is applied to the pointer as given and drops exactly the leading element", b.canonFname(fn), n)
				bad := ""
				// strings.Cut(pointer, "/") has already dropped the text in front of the first
				// separator: what follows it is split as it is, and nothing more is dropped
				afterCut := false
				if ex, isEx := call.Call.Args[0].(*ssa.Extract); isEx && ex.Index == 1 {
					if cc, isCall := ex.Tuple.(*ssa.Call); isCall && stdName(cc.Call.StaticCallee()) == "strings.Cut" {
						if _, isParam := cc.Call.Args[0].(*ssa.Parameter); isParam {
							if sep, ok := strConst(cc.Call.Args[1]); ok && sep == "/" {
								afterCut = true
							}
						}
					}
				}
				if _, isParam := call.Call.Args[0].(*ssa.Parameter); !isParam && !afterCut {
					bad = "the text that is split is " + describeValue(call.Call.Args[0]) + ", not the pointer parameter itself: leading or repeated separators are reference tokens (empty member names) and must survive"
				}
				for _, r := range *call.Referrers() {
					switch x := r.(type) {
					case *ssa.Slice:
						if afterCut {
							if lo, ok := intConst(x.Low); x.Low != nil && (!ok || lo != 0) {
								bad = "the token list is taken from the split of the text behind the first separator at " + b.posOf(x) + " with a further element dropped"
							}
							continue
						}
						if lo, ok := intConst(x.Low); x.Low == nil || !ok || lo != 1 {
							bad = "the token list is taken from the split result at " + b.posOf(x) + " without dropping exactly the first element"
						}
					case *ssa.IndexAddr:
						if k, ok := intConst(x.Index); ok && k == 0 {
							// reading element 0 (the text in front of the first separator) is fine only for a check
						}
					}
				}
				if bad != "" {
					l.add("R-TOKEN", b.Name, key, b.posOf(call), Violated, bad, true)
				} else {
					l.add("R-TOKEN", b.Name, key, b.posOf(call), Discharged, "strings.Split(<path parameter>, \"/\"); every slice of the result starts at 1", true)
				}
				// a non-empty pointer starts with "/": the resolver (the function that returns the
				// container) refuses a pointer with text in front of its first separator
				if b.Name == "v5" && fn.Signature.Results().Len() == 2 && isNamed(fn.Signature.Results().At(0).Type(), "container") {
					key := fmt.Sprintf("%s: a pointer with text in front of its first \"/\" resolves to nothing", b.canonFname(fn))
					pathP := call.Call.Args[0]
					ok := false
					for _, bb := range fn.Blocks {
						iff, isIf := bb.Instrs[len(bb.Instrs)-1].(*ssa.If)
						if !isIf {
							continue
						}
						cv, neg := stripNot(iff.Cond)
						failSucc := -1
						switch x := cv.(type) {
						case *ssa.BinOp:
							if x.Op != token.EQL && x.Op != token.NEQ {
								break
							}
							var other ssa.Value
							var elem ssa.Value
							if s0, isS := strConst(x.Y); isS && s0 == "" {
								elem, other = x.X, x.Y
							} else if k, isK := intConst(x.Y); isK && k == '/' {
								elem, other = x.X, x.Y
							}
							_ = other
							if elem == nil {
								break
							}
							first := false
							if u, isU := elem.(*ssa.UnOp); isU {
								if ia, isIA := u.X.(*ssa.IndexAddr); isIA && ia.X == ssa.Value(call) {
									if k, isK := intConst(ia.Index); isK && k == 0 {
										first = true
									}
								}
							}
							if lk, isL := elem.(*ssa.Lookup); isL && lk.X == pathP {
								if k, isK := intConst(lk.Index); isK && k == 0 {
									first = true
								}
							}
							if ix, isI := elem.(*ssa.Index); isI && ix.X == ssa.Value(call) {
								if k, isK := intConst(ix.Index); isK && k == 0 {
									first = true
								}
							}
							if !first {
								break
							}
							failSucc = 1 // == : false edge fails
							if x.Op == token.NEQ {
								failSucc = 0
							}
						case *ssa.Call:
							if f := x.Call.StaticCallee(); f != nil && stdName(f) == "strings.HasPrefix" && x.Call.Args[0] == pathP {
								if p, isS := strConst(x.Call.Args[1]); isS && p == "/" {
									failSucc = 1
								}
							}
						}
						if failSucc < 0 {
							continue
						}
						if neg {
							failSucc = 1 - failSucc
						}
						fb := bb.Succs[failSucc]
						if r, isRet := fb.Instrs[len(fb.Instrs)-1].(*ssa.Return); isRet && isNilConst(r.Results[0]) {
							ok = true
						}
					}
					if ok {
						l.add("R-TOKEN", b.Name, key, b.posOf(call), Discharged, "the element in front of the first separator is tested for emptiness and the failing edge returns no container", true)
					} else {
						l.add("R-TOKEN", b.Name, key, b.posOf(call), Violated, "the element of the split in front of the first separator is dropped without being looked at: \"x/b\" is resolved like \"/b\", although RFC 6901 makes it an invalid pointer (an operation that must fail is applied)", true)
					}
				}
			})
		}
		for _, fn := range b.srcFuncs(b.Lib) {
			if isContainerImplMethod(fn) {
				continue // forwarding between container methods passes an already-decoded key
			}
			perMethod := map[string]int{}
			allInstrs(fn, func(i ssa.Instruction) {
				ci, ok := i.(ssa.CallInstruction)
				if !ok {
					return
				}
				com := ci.Common()
				m := ""
				for _, name := range []string{"get", "set", "add", "remove"} {
					if isContainerInvoke(com, name) {
						m = name
					}
				}
				var keyArg ssa.Value
				if m != "" {
					keyArg = com.Args[0]
				} else if f := com.StaticCallee(); isContainerImplMethod(f) {
					m = f.Name()
					keyArg = com.Args[1] // receiver first
				}
				if m == "" {
					return
				}
				if !isStringType(keyArg.Type()) {
					return
				}
				perMethod[m]++
				key := fmt.Sprintf("%s: key of container.%s #%d is a reference token decoded exactly once", fname(fn), m, perMethod[m])
				t := &tokTrace{b: b, decoders: dm, origins: map[string]map[int]bool{}, seen: map[string]bool{}}
				t.walk(keyArg, 0, 0)
				var facts []string
				bad := ""
				var os []string
				for o := range t.origins {
					os = append(os, o)
				}
				sort.Strings(os)
				for _, o := range os {
					for n := range t.origins[o] {
						facts = append(facts, fmt.Sprintf("%s: decoded %d×", o, n))
						if strings.HasPrefix(o, "member name") && n != 0 {
							bad = "a member name taken from the document is run through the reference-token decoder (a member called `~1` would be renamed `/`)"
						}
						if strings.HasPrefix(o, "element of strings.Split") && n != 1 {
							if n == 0 {
								bad = o + " reaches the key undecoded (a member named `a/b`, addressed as `a~1b`, is looked up or created under the literal name `a~1b`)"
							} else {
								bad = fmt.Sprintf("%s is decoded %d times on some path (`~01` would become `/` instead of `~1`)", o, n)
							}
						}
					}
				}
				sort.Strings(facts)
				switch {
				case bad != "":
					l.add("R-TOKEN", b.Name, key, b.posOf(ci), Violated, bad, true)
				case len(t.unknown) > 0:
					l.add("R-TOKEN", b.Name, key, b.posOf(ci), Undecided, "key value not traceable to a reference token, a constant or a generated index: "+strings.Join(t.unknown, "; "), true)
				case len(facts) == 0:
					l.add("R-TOKEN", b.Name, key, b.posOf(ci), Undecided, "no origin found for the key", true)
				default:
					l.add("R-TOKEN", b.Name, key, b.posOf(ci), Discharged, strings.Join(facts, "; "), true)
				}
			})
		}
	}
}

// ---- R-TOKTAB ---------------------------------------------------------------------

func ruleTokTab(c *Ctx) {
	for _, b := range c.bodies() {
		l := c.L
		for _, d := range b.tokenDecoders() {
			key := "RFC 6901 decoder " + fname(d) + ": table and order"
			ok, why, und := b.decoderTable(d)
			switch {
			case und:
				l.add("R-TOKTAB", b.Name, key, b.rel(d.Pos()), Undecided, why, true)
			case ok:
				l.add("R-TOKTAB", b.Name, key, b.rel(d.Pos()), Discharged, why, true)
			default:
				l.add("R-TOKTAB", b.Name, key, b.rel(d.Pos()), Violated, why, true)
			}
		}
	}
}

func pairsString(p [][2]string) string {
	var s []string
	for _, x := range p {
		s = append(s, fmt.Sprintf("%q→%q", x[0], x[1]))
	}
	return strings.Join(s, ", ")
}

// decoderTable analyses decoder d. Returns (ok, explanation, undecided).
func (b *Body) decoderTable(d *ssa.Function) (bool, string, bool) {
	param := ssa.Value(d.Params[0])
	// chain(v): the ordered list of replacement steps applied to the parameter to obtain v
	type step struct {
		kind string
		pair [][2]string
	}
	var chain func(v ssa.Value, depth int) ([]step, string)
	chain = func(v ssa.Value, depth int) ([]step, string) {
		if depth > 6 {
			return nil, "too deep"
		}
		if v == param {
			return nil, ""
		}
		call, ok := v.(*ssa.Call)
		if !ok {
			return nil, "result is computed by " + describeValue(v) + ", not by a replacement call"
		}
		switch isReplaceCall(&call.Call) {
		case "replacer":
			g := loadedGlobal(call.Call.Args[0])
			if g == nil {
				return nil, "the Replacer is not a package-level variable"
			}
			pairs, why := b.replacerPairs(g)
			if why != "" {
				return nil, why
			}
			prev, w := chain(call.Call.Args[1], depth+1)
			if w != "" {
				return nil, w
			}
			return append(prev, step{"replacer", pairs}), ""
		case "replaceall", "replace":
			o, ok1 := strConst(call.Call.Args[1])
			n, ok2 := strConst(call.Call.Args[2])
			if !ok1 || !ok2 {
				return nil, "non-constant replacement operands"
			}
			if isReplaceCall(&call.Call) == "replace" {
				if cnt, ok := intConst(call.Call.Args[3]); !ok || cnt >= 0 {
					return nil, "strings.Replace with a bounded count does not decode every occurrence"
				}
			}
			prev, w := chain(call.Call.Args[0], depth+1)
			if w != "" {
				return nil, w
			}
			return append(prev, step{"whole-string", [][2]string{{o, n}}}), ""
		}
		return nil, "result of " + calleeLabel(&call.Call)
	}
	want := map[[2]string]bool{{"~1", "/"}: true, {"~0", "~"}: true}
	nret := 0
	var descr []string
	for _, r := range returnsOf(d) {
		nret++
		v := r.Results[0]
		var alts []ssa.Value
		if phi, ok := v.(*ssa.Phi); ok {
			alts = phi.Edges
		} else {
			alts = []ssa.Value{v}
		}
		for _, a := range alts {
			if a == param {
				// pass-through is fine only when the token holds no '~'
				if !b.guardedByNoTilde(d, r.Block(), param) {
					return false, "a path returns the token undecoded without having established that it contains no `~`", false
				}
				descr = append(descr, "pass-through guarded by a no-`~` test")
				continue
			}
			steps, why := chain(a, 0)
			if why != "" {
				return false, why, true
			}
			if len(steps) == 1 && steps[0].kind == "replacer" {
				got := map[[2]string]bool{}
				for _, p := range steps[0].pair {
					got[p] = true
				}
				if len(got) != len(want) || len(steps[0].pair) != 2 {
					return false, "single-pass Replacer with pairs {" + pairsString(steps[0].pair) + "}, RFC 6901 §4 needs exactly {\"~1\"→\"/\", \"~0\"→\"~\"}", false
				}
				for p := range want {
					if !got[p] {
						return false, "single-pass Replacer with pairs {" + pairsString(steps[0].pair) + "}, RFC 6901 §4 needs exactly {\"~1\"→\"/\", \"~0\"→\"~\"}", false
					}
				}
				descr = append(descr, "single-pass strings.Replacer {"+pairsString(steps[0].pair)+"}")
				continue
			}
			// successive whole-string replacements: ~1 first, then ~0
			var seq [][2]string
			for _, s := range steps {
				if s.kind != "whole-string" {
					return false, "a Replacer is combined with further replacement passes", true
				}
				seq = append(seq, s.pair...)
			}
			if len(seq) != 2 || seq[0] != [2]string{"~1", "/"} || seq[1] != [2]string{"~0", "~"} {
				return false, "successive whole-string replacements " + pairsString(seq) + "; RFC 6901 §4 requires `~1`→`/` first and then `~0`→`~` (the opposite order turns `~01` into `/`)", false
			}
			descr = append(descr, "two passes in RFC order: "+pairsString(seq))
		}
	}
	if nret == 0 {
		return false, "decoder has no return", true
	}
	return true, strings.Join(descr, "; "), false
}

// replacerPairs: constant pairs of the strings.NewReplacer call that
// initialises global g (its only store, in the package initialiser).
func (b *Body) replacerPairs(g *ssa.Global) ([][2]string, string) {
	sts := b.globalStores(g)
	if len(sts) != 1 {
		return nil, fmt.Sprintf("the Replacer variable %s is assigned %d times", g.Name(), len(sts))
	}
	call, ok := sts[0].Val.(*ssa.Call)
	if !ok || !staticCalleeIs(&call.Call, "strings", "NewReplacer") {
		return nil, "the Replacer variable is not initialised by strings.NewReplacer"
	}
	ops, ok := varargsOperands(call.Call.Args[0])
	if !ok || len(ops)%2 != 0 {
		return nil, "NewReplacer arguments not decodable"
	}
	var out [][2]string
	for i := 0; i+1 < len(ops); i += 2 {
		o, ok1 := strConst(ops[i])
		n, ok2 := strConst(ops[i+1])
		if !ok1 || !ok2 {
			return nil, "non-constant NewReplacer argument"
		}
		out = append(out, [2]string{o, n})
	}
	return out, ""
}

// guardedByNoTilde: block bb is dominated by an edge on which the token is
// known to contain no '~' (strings.Contains/ContainsRune/IndexByte/Index tests).
func (b *Body) guardedByNoTilde(fn *ssa.Function, bb *ssa.BasicBlock, param ssa.Value) bool {
	for _, x := range fn.Blocks {
		iff, ok := x.Instrs[len(x.Instrs)-1].(*ssa.If)
		if !ok {
			continue
		}
		cv, neg := stripNot(iff.Cond)
		noTildeSucc := -1
		switch y := cv.(type) {
		case *ssa.Call:
			f := y.Call.StaticCallee()
			if f != nil && (funcIs(f, "strings", "Contains") || funcIs(f, "strings", "ContainsRune") || funcIs(f, "strings", "ContainsAny")) && y.Call.Args[0] == param {
				if s, ok := strConst(y.Call.Args[1]); ok && s == "~" {
					noTildeSucc = 1
				}
				if r, ok := intConst(y.Call.Args[1]); ok && r == '~' {
					noTildeSucc = 1
				}
			}
		case *ssa.BinOp:
			if call, ok := y.X.(*ssa.Call); ok {
				f := call.Call.StaticCallee()
				if f != nil && (funcIs(f, "strings", "IndexByte") || funcIs(f, "strings", "Index") || funcIs(f, "strings", "IndexRune")) && call.Call.Args[0] == param {
					isT := false
					if s, ok := strConst(call.Call.Args[1]); ok && s == "~" {
						isT = true
					}
					if r, ok := intConst(call.Call.Args[1]); ok && r == '~' {
						isT = true
					}
					if k, ok := intConst(y.Y); ok && isT {
						switch {
						case y.Op == token.LSS && k == 0, y.Op == token.EQL && k == -1:
							noTildeSucc = 0
						case y.Op == token.GEQ && k == 0, y.Op == token.NEQ && k == -1:
							noTildeSucc = 1
						}
					}
				}
			}
		}
		if noTildeSucc < 0 {
			continue
		}
		if neg {
			noTildeSucc = 1 - noTildeSucc
		}
		if edgeDominates(x, noTildeSucc, bb) {
			return true
		}
	}
	return false
}
