#!/bin/bash
# Re-evaluates which checks fire on every confirmed seeded change (scratch worktrees, never /repo itself),
# updates seeded/<id>/meta.json "detection" and prints the matrix. Runs SHARDS shards side by side, each in
# its own worktree, all with one copy of the analyser taken at the start (a rebuild meanwhile changes nothing).
cd /verif
SHARDS=${SHARDS:-6}
mkdir -p /tmp/wt
cp bin/jpverif /tmp/wt/jpverif-matrix
export JPVERIF=/tmp/wt/jpverif-matrix
shard() {
  k=$1; n=0
  for d in seeded/*/; do
    n=$((n+1)); [ $((n % SHARDS)) -eq $k ] || continue
    out=$(WT=/tmp/wt/mx$k tools/trypatch.sh $d/patch.diff all --evidence-dir /tmp/wt/seedmatrix-ev$k 2>&1)
    fired=$(echo "$out" | grep -o "VIOLATION property=C[0-9]*" | sed 's/VIOLATION property=//' | sort -u | tr '\n' ' ')
    rules=$(echo "$out" | grep -E "^  (violated|undecided) \[" | sed -E 's/^  (violated|undecided) \[([A-Z-]+)\].*/\2/' | sort -u | tr '\n' ' ')
    python3 - "$d/meta.json" "$fired" "$rules" <<'PY'
import json,sys
p,fired,rules=sys.argv[1:4]
m=json.load(open(p))
fired=fired.split(); rules=rules.split()
m['detection']={'checks_fired':fired,'rules_fired':rules,'detected_by_own_property_check': m['property'] in fired}
json.dump(m,open(p,'w'),indent=1)
print("%-8s %-4s own=%-5s fired=%-40s rules=%s"%(m['seed_id'],m['property'],m['property'] in fired,",".join(fired),",".join(rules)))
PY
  done
  rm -rf /tmp/wt/seedmatrix-ev$k
  git -C /repo worktree remove --force /tmp/wt/mx$k 2>/dev/null
}
for k in $(seq 0 $((SHARDS-1))); do shard $k & done
wait
rm -f /tmp/wt/jpverif-matrix
