#!/bin/bash
# usage: mut.sh <repo-relative file> <python-expr old=>new, separated by '=>'> [jpverif rules args]
# Analyses /repo with one file overlaid by an edited copy (single textual replacement, first occurrence
# unless @N suffix is given in MUT_OCC). Prints non-discharged obligations. Development aid only.
set -u
F=$1; EDIT=$2; shift 2
T=$(mktemp /dev/shm/mutXXXXXX.go)
python3 - "$F" "$EDIT" "$T" <<'PY' || { rm -f $T; exit 3; }
import sys,os
f,edit,t=sys.argv[1:4]
old,new=edit.split('=>',1)
s=open('/repo/'+f).read()
occ=int(os.environ.get('MUT_OCC','1'))
i=-1
for _ in range(occ):
    i=s.find(old,i+1)
    if i<0: sys.exit("edit does not apply: "+old)
s=s[:i]+new+s[i+len(old):]
open(t,'w').write(s)
PY
/verif/bin/jpverif rules --overlay "$F=$T" "$@" 2>&1 | grep -A1 "^!" ; /verif/bin/jpverif rules --overlay "$F=$T" "$@" 2>&1 | tail -1
rm -f $T
