#!/usr/bin/env python3
# Regenerates the seed table of DESIGN.md §11.4 (between the seedtable markers) from seeded/*/meta.json.
import json,glob,os,re
rows=[]
for d in sorted(glob.glob('/verif/seeded/*/')):
    m=json.load(open(d+'meta.json'))
    det=m.get('detection',{})
    rules=', '.join(det.get('rules_fired',[])) or '— (not seen)'
    checks=', '.join(det.get('checks_fired',[])) or '—'
    t=m['title'].replace('|','/').replace('\n',' ')
    if len(t)>150: t=t[:149]+'…'
    own='' if det.get('detected_by_own_property_check') else ' (not by its own property)'
    if not det.get('checks_fired'): own=''
    rows.append('| %s | %s | %s | %s%s |'%(m['seed_id'],t,rules,checks,own))
tab='| seed | change (independent sub-agent, confirmed: suite passes, demo fails with it, passes without) | rules that report it | checks that fail |\n|---|---|---|---|\n'+'\n'.join(rows)
s=open('/verif/DESIGN.md').read()
b,e='<!-- seedtable:begin -->','<!-- seedtable:end -->'
assert b in s and e in s
s=s[:s.index(b)+len(b)]+'\n'+tab+'\n'+s[s.index(e):]
open('/verif/DESIGN.md','w').write(s)
print(len(rows),'rows')
