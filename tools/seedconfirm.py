#!/usr/bin/env python3
"""seedconfirm.py <seedout dir of one change> <seed id>

Confirms a seeded change delivered by a sub-agent, in a scratch worktree of /repo
(outside /repo and /verif), and stores it as /verif/seeded/<seed id>/:
  1. clean tree + demonstration            -> must PASS
  2. changed tree + existing suite         -> must PASS
  3. changed tree + demonstration          -> must FAIL
  4. changed tree analysed by jpverif (all claimed properties) -> which checks fire
Nothing is ever applied to /repo itself.
"""
import json, os, re, shutil, subprocess, sys, glob

ENV = dict(os.environ, GOFLAGS="-mod=mod", GOPROXY="off", GOSUMDB="off", GOTOOLCHAIN="local", GOWORK="off")
WT = "/tmp/wt/confirm"
LEGACY_GOMOD = "module github.com/evanphx/json-patch\n\ngo 1.18\n\nrequire github.com/jessevdk/go-flags v1.6.1\n\nrequire golang.org/x/sys v0.21.0 // indirect\n"


def sh(cmd, cwd=None, timeout=900):
    p = subprocess.run(cmd, shell=True, cwd=cwd, env=ENV, stdout=subprocess.PIPE, stderr=subprocess.STDOUT, text=True, timeout=timeout)
    return p.returncode, p.stdout


def clean():
    sh(f"git -C {WT} checkout -q -- . && git -C {WT} clean -fdqx")


def ensure_wt():
    head = subprocess.check_output("git -C /repo rev-parse HEAD", shell=True, text=True).strip()
    if not os.path.isdir(WT):
        os.makedirs(os.path.dirname(WT), exist_ok=True)
        sh(f"git -C /repo worktree add --detach {WT} {head}")
    sh(f"git -C {WT} reset -q --hard; git -C {WT} clean -fdqx")
    sh(f"git -C {WT} checkout -q --detach {head}")
    clean()
    return head


def place_demos(src):
    """copy demo files into the worktree; returns list of (dir, run pattern, race)"""
    runs = []
    for f in sorted(glob.glob(os.path.join(src, "*.go"))):
        txt = open(f).read()
        head = "\n".join(txt.split("\n")[:25])
        m = re.search(r"[Pp]lace[d]? (?:this file )?(?:in|under|at)\s+(/tmp/seed/[A-Za-z0-9-]+)(/[A-Za-z0-9_/.-]*)?", head)
        rel = ""
        if m and m.group(2):
            rel = m.group(2).strip("/")
            rel = re.sub(r"/?[A-Za-z0-9_]+_test\.go$", "", rel)
        pk = re.search(r"^package (\w+)", txt, re.M).group(1)
        if not m:
            # guess from package clause
            rel = "v5/internal/json" if pk == "json" else "v5"
        if rel.endswith(".go"):
            rel = os.path.dirname(rel)
        d = os.path.join(WT, rel)
        os.makedirs(d, exist_ok=True)
        name = "zz_seed_" + os.path.basename(f)
        if not name.endswith("_test.go") and pk != "main":
            name = name[:-3] + "_test.go"
        shutil.copy(f, os.path.join(d, name))
        tests = re.findall(r"^func (Test\w+)\(", txt, re.M)
        race = "-race" in head
        runs.append((rel, "^(" + "|".join(tests) + ")$" if tests else ".", race))
    return runs


def run_demos(runs):
    ok = True
    out = ""
    for rel, pat, race in runs:
        d = os.path.join(WT, rel)
        if not rel.startswith("v5"):
            open(os.path.join(WT, "go.mod"), "w").write(LEGACY_GOMOD)
            shutil.copy(os.path.join(WT, "v5/go.sum"), os.path.join(WT, "go.sum"))
        cmd = f"go test -vet=off -count=1 {'-race ' if race else ''}-run '{pat}' ."
        try:
            rc, o = sh(cmd, cwd=d, timeout=600)
        except subprocess.TimeoutExpired:
            rc, o = 1, "TIMEOUT (treated as failure)"
        out += f"$ (cd {rel or '.'} && {cmd}) -> rc={rc}\n" + o[-1500:] + "\n"
        if rc != 0:
            ok = False
    return ok, out


def main():
    src, sid = sys.argv[1], sys.argv[2]
    meta = json.load(open(os.path.join(src, "meta.json")))
    prop = meta.get("property", sid[:3])
    head = ensure_wt()
    patch = os.path.join(src, "patch.diff")
    res = {"repo_head": head}
    # 1 clean + demo
    runs = place_demos(src)
    ok, out = run_demos(runs)
    res["demo_on_clean_tree"] = "PASS" if ok else "FAIL"
    res["demo_on_clean_tree_log"] = out[-2500:]
    clean()
    # 2 patch + suite
    rc, o = sh(f"git -C {WT} apply {patch} || patch -p1 -s --no-backup-if-mismatch -d {WT} -i {patch}")
    if rc != 0:
        print("PATCH DOES NOT APPLY", o)
        res["patch_applies"] = False
        json.dump(res, sys.stdout, indent=1)
        return 2
    rc, o = sh("go test -vet=off -count=1 ./...", cwd=os.path.join(WT, "v5"))
    res["suite_with_change"] = "PASS" if rc == 0 else "FAIL"
    res["suite_with_change_log"] = o[-800:]
    # legacy builds?
    open(os.path.join(WT, "go.mod"), "w").write(LEGACY_GOMOD)
    shutil.copy(os.path.join(WT, "v5/go.sum"), os.path.join(WT, "go.sum"))
    rc, o = sh("go build . ./cmd/...", cwd=WT)
    res["legacy_builds_with_change"] = rc == 0
    os.remove(os.path.join(WT, "go.mod")); os.remove(os.path.join(WT, "go.sum"))
    # 3 patch + demo
    runs = place_demos(src)
    ok, out = run_demos(runs)
    res["demo_with_change"] = "PASS" if ok else "FAIL"
    res["demo_with_change_log"] = out[-2500:]
    # 4 analysis of the changed tree (demo files removed first)
    clean()
    sh(f"git -C {WT} apply {patch} || patch -p1 -s --no-backup-if-mismatch -d {WT} -i {patch}")
    evd = "/tmp/wt/confirm-evidence"
    shutil.rmtree(evd, ignore_errors=True)
    rc, o = sh(f"/verif/bin/jpverif all --repo {WT} --evidence-dir {evd}", timeout=1200)
    fired = sorted(set(re.findall(r"VIOLATION property=(C\d+)", o)))
    details = [l.strip() for l in o.split("\n") if l.strip().startswith(("violated", "undecided"))]
    res["checks_fired"] = fired
    res["check_details"] = sorted(set(details))[:12]
    res["detected_by_own_property_check"] = prop in fired
    clean()
    shutil.rmtree(evd, ignore_errors=True)
    confirmed = res["demo_on_clean_tree"] == "PASS" and res["suite_with_change"] == "PASS" and res["demo_with_change"] == "FAIL"
    res["confirmed"] = confirmed
    dst = os.path.join("/verif/seeded", sid)
    if confirmed:
        os.makedirs(dst, exist_ok=True)
        shutil.copy(patch, os.path.join(dst, "patch.diff"))
        for f in glob.glob(os.path.join(src, "*.go")):
            shutil.copy(f, os.path.join(dst, os.path.basename(f) + ".txt"))
        m = {"seed_id": sid, "property": prop, "title": meta.get("title"), "what_it_breaks": meta.get("what_it_breaks"),
             "needs_to_manifest": meta.get("needs_to_manifest"), "files_touched": meta.get("files_touched"),
             "author": "independent sub-agent given only the property text and a scratch worktree",
             "agent_commands_run": meta.get("commands_run"),
             "confirmed_by_me": {k: res[k] for k in ("repo_head", "demo_on_clean_tree", "suite_with_change", "legacy_builds_with_change", "demo_with_change")},
             "what_i_ran": ["scratch worktree /tmp/wt/confirm of /repo HEAD (removed afterwards)", "demo on clean tree: go test -run <demo tests> (PASS expected)", "git apply patch.diff; cd v5 && go test -vet=off -count=1 ./... (PASS expected)", "demo on changed tree (FAIL expected)", "jpverif all --repo <changed worktree> (which checks report a VIOLATION)"],
             "detection": {"checks_fired": fired, "detected_by_own_property_check": prop in fired, "details": res["check_details"]},
             "demo_files": "stored with a .txt suffix so that they are not compiled as part of any module"}
        json.dump(m, open(os.path.join(dst, "meta.json"), "w"), indent=1)
    print(json.dumps({k: v for k, v in res.items() if not k.endswith("_log")}, indent=1))
    if not confirmed:
        print(res.get("demo_on_clean_tree_log", "")[-1200:])
        print(res.get("suite_with_change_log", "")[-600:])
        print(res.get("demo_with_change_log", "")[-1200:])
    return 0 if confirmed else 1


if __name__ == "__main__":
    sys.exit(main())
