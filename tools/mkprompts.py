#!/usr/bin/env python3
# mkprompts.py <suffix> — writes /tmp/seedprompts/Cxx-<suffix>.txt for every property: the property text,
# the titles of all changes stored so far for it (to steer the agent elsewhere), and the procedure.
# The agent gets nothing from /verif: the prompt is self-contained.
import json,sys,glob,os
suf=sys.argv[1]
HUNT='' if suf < 'd' else 'BEFORE the task below, spend about a third of your effort on the CLEAN worktree: look for concrete inputs (documents, patches, option settings, call sequences) for which the unmodified library already violates the property as stated, inside the stated domain. Write small probe tests; where it helps, write your own tiny reference implementation of the RFC semantics and compare the library against it on systematically enumerated or random small inputs (multi-operation patches, nulls, empty names, escapes, nested containers, option combinations, boundary indices). Report every violation you can reproduce at the end of your answer with the exact input, what the library returns and what the property requires; say explicitly if you found none. These reports are as valuable as the changes.\n\n'
LEGACY='''NOTE on the legacy root package: the files patch.go/merge.go/errors.go at the root of the worktree form the package github.com/evanphx/json-patch (v4 API). It has NO go.mod, so the existing suite never compiles it. To compile/run a demonstration against it, temporarily create {wt}/go.mod containing:
  module github.com/evanphx/json-patch
  go 1.18
  require github.com/jessevdk/go-flags v1.6.1
  require golang.org/x/sys v0.21.0 // indirect
and copy {wt}/v5/go.sum to {wt}/go.sum; run `cd {wt} && go test -vet=off -count=1 -run <YourDemo> .` ; delete both files again afterwards (they must not be in patch.diff). The legacy package's own old tests are not part of the 'existing suite' but your change should still let `go build .` succeed there.'''
os.makedirs('/tmp/seedprompts',exist_ok=True)
props=[json.loads(l) for l in open('/verif/properties.jsonl')]
for p in props:
    pid=p['id']; tag='%s-%s'%(pid,suf); wt='/tmp/seed/'+tag; out='/tmp/seedout/'+tag
    prev=[]
    for d in sorted(glob.glob('/verif/seeded/%s-*/meta.json'%pid)):
        prev.append(json.load(open(d))['title'])
    legacy = pid in ('C18','C19') or 'legacy' in json.dumps(p.get('anchors',{})) or any(not f.startswith('v5/') for f in p.get('anchors',{}).get('files',[]))
    txt=f'''You are helping test a verification effort for the Go library evanphx/json-patch (RFC 6902 JSON Patch, RFC 7396 merge patch, with a forked encoding/json under v5/internal/json). You have your OWN scratch git worktree of the repository at {wt} (a detached checkout). Work ONLY inside that directory (and {out}/ for your deliverables). Do NOT read, list or use anything under /verif or /repo; do not look at other directories under /tmp/seed or /tmp/seedout.

Here is a semantic property the library is supposed to satisfy:

ID: {pid}
TITLE: {p['title']}
STATEMENT: {p['statement']}
QUANTIFIER: {p['quantifier']['text']}
WHY TESTS CANNOT SETTLE IT: {p['why_tests_cant']}
ANCHORS (where the mechanisms live; line numbers may have drifted): {json.dumps(p['anchors'])}

{HUNT}YOUR TASK: produce 3 DIFFERENT, realistic source changes to the library (each one independent, each a separate small diff against the clean worktree) that BREAK this property while (a) the code still compiles and (b) the EXISTING test suite still passes completely. The existing suite is run with:
  cd {wt}/v5 && GOFLAGS=-mod=mod GOPROXY=off GOSUMDB=off go test -vet=off -count=1 ./...
(There is no network; never try to download anything. Always export GOFLAGS=-mod=mod GOPROXY=off GOSUMDB=off GOTOOLCHAIN=local in every shell call.)
{LEGACY.format(wt=wt) if legacy else ""}

Other engineers have ALREADY produced the following changes for this property; yours must differ from all of them in mechanism AND in location (a different function, or a different clause of the property):
''' + ''.join(' - %s\n'%t for t in prev) + f'''
Requirements for each change:
- It should look like something a maintainer could plausibly commit (a refactor gone slightly wrong, a performance shortcut, a generalisation, a "simplification", a helper extracted and reused at one site too many, a changed default, state kept where it should not be, an ordering of two effects swapped, a boundary condition that is right for the common case only ...), NOT a deliberately obfuscated sabotage, and not something ordinary use would expose at once.
- Prefer SUBTLE changes: not merely the deletion of one obvious guard. Good candidates are interactions between two functions or two sites that each look fine alone, values carried over from an earlier iteration/call, an edge-case value shape (null, empty object/array, empty key, duplicate-looking keys, escapes, very large numbers, deep nesting), an option combination, a multi-step operation sequence, or a particular goroutine interleaving.
- It must really break the property as stated (within the stated domain of the quantifier - read the exclusions carefully), and you must DEMONSTRATE that with a Go test file (or small program) that FAILS with your change applied and PASSES on the clean worktree. The demonstration is placed next to the code only while you test; it is not part of the diff.
- Touch only non-test .go files of the repository in the diff. Keep each diff small (a few lines up to ~25).
- Make the 3 changes as different from each other as you can.

Procedure for each change k = 1..3:
 1. Start from a clean worktree (`git -C {wt} checkout -- . && git -C {wt} clean -fdq`).
 2. Edit the source. Run the existing suite (command above); it must pass fully.
 3. Write the demonstration; run it with the change (must fail); then save the diff, restore the clean tree, run the demonstration again (must pass); confirm both outcomes yourself.
 4. Save into {out}/k/ : `patch.diff` (output of `git -C {wt} diff` for the non-test source change only), the demonstration file(s) (e.g. demo_test.go, with a first-line comment of the form `// Place in {wt}/<dir>/ (package <name>) as <file>; run: <command>`), and `meta.json` with keys: property (="{pid}"), title (one line), what_it_breaks (which clause of the property), needs_to_manifest (the specific input / sequence / schedule needed), files_touched, commands_run (the exact commands and their observed outcomes: suite passes with change; demo fails with change; demo passes without).
 5. Restore the worktree to clean before the next change.
At the end leave the worktree clean (no modifications, no untracked files). Your final answer should be a short list: for each k, one line describing the change and confirming the three outcomes. If you cannot find 3 such changes, deliver as many as you can confirm; never deliver an unconfirmed one. SEPARATELY, if while reading the code you notice that the CLEAN worktree itself already violates the property for some input, say so at the end of your answer with the exact input and what happens (this is valuable), but do not count it as one of your changes.
'''
    open('/tmp/seedprompts/%s.txt'%tag,'w').write(txt)
print('wrote',len(props),'prompts')
