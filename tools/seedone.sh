#!/bin/bash
# seedone.sh <seed-id>... — refresh the "detection" record of single seeds (what seedmatrix.sh does for all)
cd /verif
for id in "$@"; do
  d=seeded/$id
  out=$(WT=${WT:-/tmp/wt/ref} tools/trypatch.sh $d/patch.diff all --evidence-dir /tmp/wt/seedone-ev 2>&1)
  fired=$(echo "$out" | grep -o "VIOLATION property=C[0-9]*" | sed 's/VIOLATION property=//' | sort -u | tr '\n' ' ')
  rules=$(echo "$out" | grep -E "^  (violated|undecided) \[" | sed -E 's/^  (violated|undecided) \[([A-Z-]+)\].*/\2/' | sort -u | tr '\n' ' ')
  python3 - "$d/meta.json" "$fired" "$rules" <<'PY'
import json,sys
p,fired,rules=sys.argv[1:4]
m=json.load(open(p))
fired=fired.split(); rules=rules.split()
m['detection']={'checks_fired':fired,'rules_fired':rules,'detected_by_own_property_check': m['property'] in fired}
json.dump(m,open(p,'w'),indent=1)
print("%-8s %-4s own=%-5s fired=%-40s rules=%s"%(m['seed_id'],m['property'],m['property'] in fired,",".join(fired),",".join(rules)))
PY
done
rm -rf /tmp/wt/seedone-ev
