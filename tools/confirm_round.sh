#!/bin/bash
# confirm_round.sh <suffix>  — confirm every delivered change /tmp/seedout/Cxx-<suffix>/<k> that is not stored yet
S=$1
for d in /tmp/seedout/C*-$S/*/; do
  [ -f "$d/meta.json" ] && [ -f "$d/patch.diff" ] || continue
  t=$(basename $(dirname $d)); k=$(basename $d); id="$t$k"
  [ -d /verif/seeded/$id ] && continue
  echo "=== $id"
  python3 /verif/tools/seedconfirm.py $d $id 2>&1 | python3 -c "
import sys,json
txt=sys.stdin.read()
try:
    j=json.loads(txt[txt.index('{'):txt.rindex('}')+1]); print({k:j[k] for k in ('confirmed','demo_on_clean_tree','suite_with_change','demo_with_change','checks_fired','detected_by_own_property_check')}); print(j['check_details'][:3])
    if not j['confirmed']: print(txt[-1800:])
except Exception as e: print('ERR',e, txt[-1500:])
"
done
