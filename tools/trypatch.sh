#!/bin/bash
# usage: trypatch.sh <patch.diff> [jpverif args...]   — analyse a scratch worktree of /repo HEAD with the patch applied
set -u
P=$(readlink -f "$1"); shift
WT=${WT:-/tmp/wt/mut}
if [ ! -d $WT ]; then git -C /repo worktree add --detach $WT HEAD >/dev/null 2>&1; fi
git -C $WT reset -q --hard; git -C $WT clean -fdqx
git -C $WT checkout -q --detach $(git -C /repo rev-parse HEAD) || { echo "cannot move scratch worktree to /repo HEAD"; exit 3; }
if ! git -C $WT apply "$P" 2>/dev/null; then
  # same tolerance as the thorough tier's replay (patch with fuzz)
  git -C $WT reset -q --hard
  if ! patch -p1 -s --no-backup-if-mismatch -d $WT -i "$P" >/dev/null; then echo "PATCH DOES NOT APPLY: $P"; git -C $WT reset -q --hard; git -C $WT clean -fdqx; exit 3; fi
fi
${JPVERIF:-/verif/bin/jpverif} "${@:-rules}" --repo $WT
rc=$?
git -C $WT checkout -- . ; git -C $WT clean -fdq
exit $rc
