#!/bin/bash
# refcheck.sh — for every delivered behaviour-preserving refactoring /tmp/seedout/R<area>/<k>/patch.diff that is not stored yet:
# apply it in the scratch worktree, run the existing suite, run every rule, and print what is reported.
# A refactoring that stays silent is stored as variants/silent/ref-<area><k>.diff (+ .rules = all rules).
export GOFLAGS=-mod=mod GOPROXY=off GOSUMDB=off GOTOOLCHAIN=local GOWORK=off
cd /verif
ALL=$(./bin/jpverif rules 2>/dev/null | awk '{print $1=="!"?$2:$1}' | grep "^R-" | sort -u | tr '\n' ' ')
WT=${WT:-/tmp/wt/mut}
for d in /tmp/seedout/[RSTUVWXY]*/*/; do
  [ -f "$d/patch.diff" ] && [ -f "$d/meta.json" ] || continue
  a=$(basename $(dirname $d)); k=$(basename $d); id="ref-$a$k"
  [ -f variants/silent/$id.diff ] && continue
  [ -f /tmp/refcheck/$id.reported ] && [ "${1:-}" != "--again" ] && continue
  echo "=== $id: $(python3 -c "import json;print(json.load(open('$d/meta.json')).get('title','')[:150])")"
  git -C $WT reset -q --hard; git -C $WT clean -fdqx; git -C $WT checkout -q --detach $(git -C /repo rev-parse HEAD)
  if ! git -C $WT apply "$d/patch.diff" 2>/dev/null; then echo "   patch does not apply"; continue; fi
  if ! (cd $WT/v5 && go build ./... && go test -vet=off -count=1 ./... >/dev/null 2>&1); then echo "   SUITE FAILS with the refactoring"; continue; fi
  out=$(./bin/jpverif rules --repo $WT 2>&1 | grep -A1 "^!" | grep -v "len(doc) == 0\]\|ill-formed text is accepted\|a member name is written without escaping\|whose U+2028")
  if [ -z "$(echo "$out" | grep '^!')" ]; then
    cp "$d/patch.diff" variants/silent/$id.diff; echo "$ALL" > variants/silent/$id.rules; echo "   silent -> stored"
  else
    mkdir -p /tmp/refcheck; echo "$out" > /tmp/refcheck/$id.reported
    echo "$out" | cut -c1-260
  fi
done
git -C $WT reset -q --hard
