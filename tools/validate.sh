#!/bin/bash
# validates MANIFEST.json and every evidence file against the schemas
python3-vt - <<'PY'
import json,jsonschema,glob,sys
m=json.load(open('/verif/MANIFEST.json'));s=json.load(open('/root/.vp/MANIFEST.schema.json'))
jsonschema.validate(m,s)
es=json.load(open('/root/.vp/EVIDENCE.schema.json'))
for f in glob.glob('/verif/evidence/*.json'):
    jsonschema.validate(json.load(open(f)),es)
ids=[c['property_id'] for c in m['checks']]+[n['property_id'] for n in m.get('not_applicable',[])]
want=[json.loads(l)['id'] for l in open('/verif/properties.jsonl')]
assert sorted(ids)==sorted(want), (ids,want)
print('manifest+evidence valid;',len(m['checks']),'checks,',len(m.get('not_applicable',[])),'not applicable')
PY
# MANIFEST.json must be what the analyser generates now (it is printed on stdout: redirect it into the file)
if [ -x /verif/bin/jpverif ]; then
  if ! /verif/bin/jpverif manifest 2>/dev/null | cmp -s - /verif/MANIFEST.json; then
    echo "MANIFEST.json is stale: run ./bin/jpverif manifest > MANIFEST.json"; exit 1
  fi
fi
